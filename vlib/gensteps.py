"""Generators for primitive steps: positions ordered and inside the document, payloads
schema-valid, but deliberately *not* chosen to fit (wrappers that cannot hold the gap, lifts
to the wrong depth, jittered positions).  Half of the steps are passed through a real JSON
encode/decode + Step.from_json by the callers."""
import json

from . import flat
from .flat import akey

KINDS = ["replace", "replaceAround", "addMark", "removeMark", "addNodeMark", "removeNodeMark", "attr", "docAttr"]


def valid_slices(sch, rnd, sources, per=3):
    """Slices cut by the library from (node, plain tree) sources and confirmed by the
    reference cut (so a slice bug cannot poison the payload)."""
    out = []
    leaf = sch.leaf
    for sd, sp in sources:
        m = flat.size(sp[4], leaf)
        for _ in range(per if m else 0):
            a = rnd.randint(0, m)
            b = rnd.randint(a, m)
            try:
                s = sd.slice(a, b)
            except Exception:
                continue
            exp = flat.ref_slice(sp[4], a, b, leaf) if a < b else ((), 0, 0)
            if (flat.pt_frag(s.content), s.open_start, s.open_end) == exp:
                out.append(s)
            if a < b and rnd.random() < 0.3:
                # the same range with its ancestors kept: a single top node open on both sides
                # (what a clipboard or Slice.max_open produces; Node.slice alone never does)
                out.append(reroot(sd, sp, a, b, leaf, rnd))
    return [x for x in out if x is not None]


def reroot(sd, sp, a, b, leaf, rnd):
    """slice(a,b) of document sd kept inside k >= 1 of its shared ancestors (k random; k =
    all of them equals include_parents=True), confirmed by the reference cut."""
    from prosemirror.model import Fragment, Slice

    tk = flat.toks(sp[4], leaf)
    prof = flat.depth_profile(tk)
    shared = flat.min_depth_between(prof, a, b)
    if shared == 0:
        return None
    try:
        full = sd.slice(a, b, True)
    except Exception:
        return None
    if (flat.pt_frag(full.content), full.open_start, full.open_end) != (flat.cut_children(sp[4], a, b, leaf), prof[a], prof[b]):
        return None
    drop = rnd.randint(0, shared - 1)  # peel this many outer ancestors off again
    content = full.content
    os_, oe = full.open_start, full.open_end
    for _ in range(drop):
        if content.child_count != 1:
            break
        content = content.child(0).content
        os_ -= 1
        oe -= 1
    return Slice(content, os_, oe)


def random_mark(sch, rnd, g):
    names = list(sch.ref.marks)
    if not names:
        return None
    n, a = g.mark(rnd.choice(names))
    return sch.schema.marks[n].create(json.loads(a))


def seam_mark(sch, rnd, g, tk, n):
    """(from, to, mark) across a seam: two adjacent text units whose mark sets differ, and a
    mark of a type one side carries (other attributes, or one that excludes the difference), the
    range ending at the ends of the two runs or a little inside / beyond them.  Afterwards the
    two sides may have equal markup and must then be one text node."""
    seams = [k for k in range(len(tk) - 1) if tk[k][0] == "T" and tk[k + 1][0] == "T" and tk[k][2] != tk[k + 1][2]]
    if not seams:
        return None
    k = rnd.choice(seams)
    cand = sorted({x[0] for x in tk[k][2] if x not in tk[k + 1][2]} | {x[0] for x in tk[k + 1][2] if x not in tk[k][2]})
    if not cand:
        return None
    mn, at = g.mark(rnd.choice(cand))
    m = sch.schema.marks[mn].create(json.loads(at))
    # the runs of equally marked text on both sides of the seam
    lo = k
    while lo > 0 and tk[lo - 1][0] == "T" and tk[lo - 1][2] == tk[k][2]:
        lo -= 1
    hi = k + 1
    while hi + 1 < len(tk) and tk[hi + 1][0] == "T" and tk[hi + 1][2] == tk[k + 1][2]:
        hi += 1
    a = lo if rnd.random() < 0.5 else rnd.randint(max(0, lo - 2), k)
    b = hi + 1 if rnd.random() < 0.5 else rnd.randint(k + 2, min(n, hi + 3))
    return a, b, m


def node_starts(tk):
    """Positions at which a non-text node starts."""
    return [i for i, t in enumerate(tk) if t[0] in ("O", "L")]


def matching_close(tk, i):
    d = 0
    for j in range(i, len(tk)):
        if tk[j][0] == "O":
            d += 1
        elif tk[j][0] == "C":
            d -= 1
            if d == 0:
                return j
    raise AssertionError


def empty_node(sch, g, tname, attrs=None):
    """A node of the type with valid attrs and no content (payload for around-steps)."""
    t = sch.ref.nodes[tname]
    a = g.attrs(t.attrs, tname) if attrs is None else attrs
    return sch.schema.nodes[tname].create(a)


def gen_step(sch, rnd, g, d, p, tk, prof, slices, kind=None):
    """A primitive step for document d.  Returns (step, tag)."""
    from prosemirror.model import Fragment, Slice
    from prosemirror.transform import (AddMarkStep, AddNodeMarkStep, AttrStep, RemoveMarkStep,
                                       RemoveNodeMarkStep, ReplaceAroundStep, ReplaceStep)
    from prosemirror.transform.doc_attr_step import DocAttrStep

    rs = sch.ref
    n = len(tk)
    kind = kind or rnd.choice(KINDS)
    starts = node_starts(tk)

    def pair():
        a = rnd.randint(0, n)
        return a, rnd.randint(a, n)

    if kind == "replace":
        s = rnd.choice(slices) if slices and rnd.random() < 0.8 else Slice.empty
        need = s.open_start - s.open_end
        compat = [(a, b) for a in range(n + 1) if prof[a] >= s.open_start for b in range(a, min(n, a + 12) + 1) if prof[a] - prof[b] == need]
        a, b = rnd.choice(compat) if compat and rnd.random() < 0.7 else pair()
        structure = rnd.random() < 0.15
        return ReplaceStep(a, b, s, structure), "replace"

    if kind == "replaceAround":
        r = rnd.random()
        structure = rnd.random() < 0.5
        if r < 0.25 and starts:
            # wrap-like: a chain of empty wrapper nodes around a flat range of siblings
            i = rnd.choice(starts)
            j = matching_close(tk, i) + 1 if tk[i][0] == "O" else i + 1
            # maybe extend over following siblings
            while j < n and tk[j][0] in ("O", "L") and rnd.random() < 0.3:
                j = matching_close(tk, j) + 1 if tk[j][0] == "O" else j + 1
            names = [x for x, t in rs.nodes.items() if not t.is_leaf and not t.is_text]
            k = rnd.randint(1, 2)
            chain = [rnd.choice(names) for _ in range(k)]
            content = Fragment.empty
            for w in reversed(chain):
                t = rs.nodes[w]
                content = Fragment.from_(sch.schema.nodes[w].create(g.attrs(t.attrs, w), content))
            return ReplaceAroundStep(i, j, i, j, Slice(content, 0, 0), k, structure), "around-wrap"
        if r < 0.4 and starts:
            # retype-like: replace the open and close token of one node
            opens = [i for i in starts if tk[i][0] == "O"]
            if opens:
                i = rnd.choice(opens)
                j = matching_close(tk, i) + 1
                names = [x for x, t in rs.nodes.items() if not t.is_leaf and not t.is_text]
                w = rnd.choice(names)
                node = sch.schema.nodes[w].create(g.attrs(rs.nodes[w].attrs, w))
                return ReplaceAroundStep(i, j, i + 1, j - 1, Slice(Fragment.from_(node), 0, 0), 1, structure), "around-retype"
        if r < 0.5:
            # lift-like: unwrap the children of a node (drop its open and close token)
            opens = [i for i in starts if tk[i][0] == "O"]
            if opens:
                i = rnd.choice(opens)
                j = matching_close(tk, i) + 1
                return ReplaceAroundStep(i, j, i + 1, j - 1, Slice.empty, 0, structure), "around-unwrap"
        if r < 0.93 and slices and starts:
            # open-slice form: a flat run of sibling nodes as the gap, (from,to) around it chosen
            # compatible with the slice's open depths, any insert offset inside the slice
            pool = [x for x in slices if x.size > 0] or slices
            deep = [x for x in pool if (x.open_start >= 2 or x.open_end >= 2) and x.content.child_count >= 2]
            s = rnd.choice(deep) if deep and rnd.random() < 0.5 else rnd.choice(pool)
            i = rnd.choice(starts)
            j = matching_close(tk, i) + 1 if tk[i][0] == "O" else i + 1
            while j < n and tk[j][0] in ("O", "L") and rnd.random() < 0.3:
                j = matching_close(tk, j) + 1 if tk[j][0] == "O" else j + 1
            need = s.open_start - s.open_end
            cands = [(a, b) for a in range(max(0, i - 6), i + 1) if prof[a] >= s.open_start
                     for b in range(j, min(n, j + 6) + 1) if prof[a] - prof[b] == need]
            if cands:
                a, b = rnd.choice(cands)
                ins = rnd.randint(0, s.size)
                return ReplaceAroundStep(a, b, i, j, s, ins, rnd.random() < 0.2), "around-open"
        # free-form: ordered positions, any slice, any insert offset
        a, b = pair()
        ga = rnd.randint(a, b)
        gb = rnd.randint(ga, b)
        s = rnd.choice(slices) if slices and rnd.random() < 0.7 else Slice.empty
        ins = rnd.randint(0, max(0, s.size))
        return ReplaceAroundStep(a, b, ga, gb, s, ins, structure), "around-free"

    if kind in ("addMark", "removeMark"):
        m = random_mark(sch, rnd, g)
        if m is None:
            return gen_step(sch, rnd, g, d, p, tk, prof, slices, "replace")
        a, b = pair()
        if kind == "addMark" and rnd.random() < 0.35:
            sm = seam_mark(sch, rnd, g, tk, n)
            if sm is not None:
                a, b, m = sm
        return (AddMarkStep if kind == "addMark" else RemoveMarkStep)(a, b, m), kind

    if kind in ("addNodeMark", "removeNodeMark"):
        m = random_mark(sch, rnd, g)
        if m is None:
            return gen_step(sch, rnd, g, d, p, tk, prof, slices, "replace")
        pos = rnd.choice(starts) if starts and rnd.random() < 0.8 else rnd.randint(0, n)
        return (AddNodeMarkStep if kind == "addNodeMark" else RemoveNodeMarkStep)(pos, m), kind

    if kind == "attr":
        pos = rnd.choice(starts) if starts and rnd.random() < 0.85 else rnd.randint(0, n)
        declared = []
        if pos < n and tk[pos][0] in ("O", "L"):
            declared = list(rs.nodes[tk[pos][1]].attrs)
        if declared and rnd.random() < 0.8:
            name = rnd.choice(declared)
            tag = "attr-declared"
        else:
            name = rnd.choice(["nope", "level", "a"])
            tag = "attr-declared" if name in declared else "attr-undeclared"
        val = rnd.choice([1, 2, "x", None, [1, {"k": "v"}], {"a": [1]}, 2.5, 0, "", [], {}])
        return AttrStep(pos, name, val), tag

    # docAttr
    declared = list(rs.nodes[rs.top].attrs)
    if declared and rnd.random() < 0.8:
        name = rnd.choice(declared)
        tag = "docAttr-declared"
    else:
        name = "nope"
        tag = "docAttr-undeclared"
    val = rnd.choice([1, 2, "x", None, [1, {"k": "v"}], {"a": [1]}, 0, "", []])
    return DocAttrStep(name, val), tag


def via_json(sch, step):
    from prosemirror.transform import Step

    return Step.from_json(sch.schema, json.loads(json.dumps(step.to_json())))


def both_open_non_prefix(rs, content, open_start, open_end):
    """Does the slice contain a node that is open at its start AND at its end (the left and
    the right open side run through the same node)?  Node.slice never yields that - it cuts
    at the deepest common ancestor - but a cut that keeps its ancestors does.  The fitter and
    close_fragment treat the two open sides as disjoint (upstream too)."""
    return min(open_start, open_end) >= 1 and len(content) == 1 and content[0][0] == "n"
