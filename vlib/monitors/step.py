"""Online monitor on Step.apply of all eight step classes (contract shape: snapshot before,
postcondition after).  Judges C01 (result valid or reported failure) and/or C03 (the map
describes the change) for *every* apply call made while armed, whoever makes it."""
from .. import flat, refmap
from ..refschema import RefSchema
from ..props.common import exc_class

_REF = {}

from .. import refschema as _rsm  # noqa: E402

_rsm.RESET_HOOKS.append(_REF.clear)


def ref_for(schema):
    r = _REF.get(id(schema))
    if r is None:
        r = (RefSchema(schema.spec), schema)
        _REF[id(schema)] = r
    return r[0]


def register(sch):
    _REF[id(sch.schema)] = (sch.ref, sch.schema)


def step_classes():
    from prosemirror.transform import (AddMarkStep, AddNodeMarkStep, AttrStep, RemoveMarkStep,
                                       RemoveNodeMarkStep, ReplaceAroundStep, ReplaceStep)
    from prosemirror.transform.doc_attr_step import DocAttrStep

    return [ReplaceStep, ReplaceAroundStep, AddMarkStep, RemoveMarkStep, AddNodeMarkStep,
            RemoveNodeMarkStep, AttrStep, DocAttrStep]


def describe_step(step):
    try:
        return step.to_json()
    except Exception as e:  # pragma: no cover
        return "%s (to_json raised %r)" % (type(step).__name__, e)


def payload_why(rs, step, kind):
    """None if the step's payload is schema-valid in the sense of C01's quantifier: every
    node of the slice that is closed (not on an open side, and - for replace-around - not an
    ancestor of the insertion point, which is filled by the gap) is a valid node; marks are
    of the schema.  Otherwise a reason."""
    sl = getattr(step, "slice", None)
    if sl is None:
        return None
    content = flat.pt_frag(sl.content)
    leaf = rs.leaf
    hole = None
    if kind == "ReplaceAroundStep":
        hole = step.insert + sl.open_start

    def boundary(children, h):
        pos = 0
        for c in children:
            if pos == h:
                return True
            sz = flat.node_size(c, leaf)
            if c[0] == "t" and pos < h < pos + sz:
                return True
            pos += sz
        return pos == h

    def walk(children, os_, oe, hole):
        pos = 0
        last = len(children) - 1
        for i, c in enumerate(children):
            sz = flat.node_size(c, leaf)
            if c[0] == "t" or c[1] in leaf:
                if c[0] == "n" and c[1] not in rs.nodes:
                    return "unknown type"
                pos += sz
                continue
            lo = os_ > 0 and i == 0
            ro = oe > 0 and i == last
            holed = hole is not None and pos < hole < pos + sz
            if lo or ro or holed:
                if c[1] not in rs.nodes:
                    return "unknown type"
                r = None
                if holed and not lo and not ro and not boundary(c[4], hole - pos - 1):
                    # the hole is deeper: this node's own child sequence is final
                    if not rs.valid_children(c[1], c[4]):
                        r = "slice: content of %s (ancestor of the gap) is invalid" % c[1]
                if r is None:
                    r = walk(c[4], os_ - 1 if lo else 0, oe - 1 if ro else 0, hole - pos - 1 if holed else None)
            else:
                r = rs.why_invalid(c, "slice")
            if r:
                return r
            pos += sz
        return None

    return walk(content, sl.open_start, sl.open_end, hole)


class StepMonitor:
    def __init__(self, ctx, c01=False, c03=False):
        self.ctx = ctx
        self.c01 = c01
        self.c03 = c03
        self.origin = "primitive"
        self.tag = ""
        self.sid = "?"
        self.via_json = False
        self.armed = False
        self._orig = {}
        self.last = None  # (outcome, doc) of the most recent apply

    def arm(self):
        if self.armed:
            return
        self.armed = True
        for cls in step_classes():
            orig = cls.__dict__["apply"]
            self._orig[cls] = orig
            setattr(cls, "apply", self._wrap(cls, orig))

    def disarm(self):
        for cls, orig in self._orig.items():
            setattr(cls, "apply", orig)
        self._orig = {}
        self.armed = False

    def _wrap(self, cls, orig):
        mon = self
        kind = cls.__name__

        def apply(step, doc):
            ctx = mon.ctx
            try:
                rs = ref_for(doc.type.schema)
                before = flat.pt(doc)
                pre_why = rs.why_invalid(before)
            except Exception:
                return orig(step, doc)
            det = None

            def detail():
                return {"schema": mon.sid, "origin": mon.origin, "tag": mon.tag, "via_json": mon.via_json,
                        "step": describe_step(step), "doc": str(doc)[:500], "doc_json": _tj(doc)}

            try:
                res = orig(step, doc)
            except BaseException as e:
                mon.last = ("exc", None)
                if pre_why is None:
                    ctx.count("apply_events")
                    ctx.count("apply:%s" % kind)
                    cl = exc_class(e)
                    if mon.c01:
                        ctx.ev()
                        ctx.cover(["c01", mon.sid, kind, mon.tag, "exc-" + cl, mon.via_json])
                        if cl == "internal":
                            ctx.violation("apply-internal-error",
                                          "%s.apply raised %s: %s" % (kind, type(e).__name__, e), detail(),
                                          {"step": kind, "exc": type(e).__name__, "tag": mon.tag})
                raise
            if pre_why is not None:
                ctx.count("apply_on_invalid_doc_not_judged")
                mon.last = ("unjudged", res.doc)
                return res
            if mon.c01 and not mon.c03 and res.doc is not None and payload_why(rs, step, kind) is not None:
                ctx.count("apply_with_invalid_payload_not_judged")
                mon.last = ("unjudged", res.doc)
                return res
            ctx.count("apply_events")
            ctx.count("apply:%s" % kind)
            ctx.count("origin:%s" % mon.origin)
            failed, newdoc = res.failed, res.doc
            if mon.c01:
                ctx.ev()
                if (failed is None) == (newdoc is None):
                    ctx.violation("apply-result-shape", "%s.apply returned failed=%r doc=%r" % (kind, failed, newdoc), detail(), {"step": kind})
                elif newdoc is not None:
                    after = flat.pt(newdoc)
                    why = rs.why_invalid(after)
                    lib_ok = True
                    try:
                        newdoc.check()
                    except Exception:
                        lib_ok = False
                    if why is not None:
                        ctx.violation("apply-invalid-result",
                                      "%s.apply returned a document that is not schema-valid (%s): %s" % (kind, why, newdoc),
                                      {**detail(), "lib_check_passes": lib_ok},
                                      {"step": kind, "tag": mon.tag, "why": why.split(":")[-1].strip()[:60]})
                    elif not lib_ok:
                        ctx.count("c07_disagreement_check_rejects_valid")
                    trivial = kind == "ReplaceStep" and step.from_ == step.to and not step.slice.size
                    ctx.cover(["c01", mon.sid, kind, mon.tag, "ok", mon.via_json,
                               _depth(before, rs, getattr(step, "from_", getattr(step, "pos", 0)))], nontrivial=not trivial)
                else:
                    ctx.cover(["c01", mon.sid, kind, mon.tag, "failed", mon.via_json])
            if newdoc is not None and failed is None:
                ctx.count("applied:%s" % kind)
                if mon.c03:
                    mon._judge_map(step, kind, rs, before, newdoc, detail)
            mon.last = ("ok" if newdoc is not None else "failed", newdoc)
            return res

        apply.__wrapped__ = orig
        return apply

    # ---- C03
    def _judge_map(self, step, kind, rs, before, newdoc, detail):
        ctx = self.ctx
        ctx.ev()
        leaf = rs.leaf
        old = flat.toks(before[4], leaf)
        new = flat.toks(flat.pt(newdoc)[4], leaf)
        try:
            m = step.get_map()
            raw = refmap.normal_ranges(list(m.ranges), bool(m.inverted))
            fe = []
            m.for_each(lambda a, b, c, d: fe.append((a, b, c, d)))
        except Exception as e:
            ctx.violation("map-raised", "%s.get_map()/for_each raised %s: %s" % (kind, type(e).__name__, e), detail(), {"step": kind})
            return
        ctx.count("map_events:%s" % kind)
        ctx.count("map_events_origin:%s" % self.origin)
        exp_fe = refmap.for_each_ref(raw)
        if fe != exp_fe:
            ctx.violation("map-for-each", "for_each reported %r, the ranges %r mean %r" % (fe, list(m.ranges), exp_fe), detail(), {"step": kind, "nranges": len(raw)})
            return
        # the map as the caller reads it (for_each) -> triples
        tr = [(a, b - a, d - c) for (a, b, c, d) in fe]
        delta = refmap.size_delta(tr)
        if len(new) - len(old) != delta:
            ctx.violation("map-size", "document size changed by %d but the map's ranges sum to %d (%r)" % (len(new) - len(old), delta, tr), detail(), {"step": kind})
            return
        markup_only = kind not in ("ReplaceStep", "ReplaceAroundStep")
        mech = {"step": kind, "tag": self.tag}
        if kind == "ReplaceAroundStep":
            mech["empty_gap"] = step.gap_from == step.gap_to
            mech["adjacent_ranges"] = len(tr) == 2 and tr[0][0] + tr[0][1] == tr[1][0]
        moved = 0
        for i, t in enumerate(old):
            if not refmap.token_outside(tr, i):
                continue
            try:
                j = m.map(i, 1)
            except Exception as e:
                ctx.violation("map-raised", "StepMap.map(%d) raised %s: %s" % (i, type(e).__name__, e), detail(), {"step": kind})
                return
            jr = refmap.map_pos(tr, i, 1).pos
            if j != jr:
                ctx.violation("map-position", "map(%d,+1) = %d but the documented rule over %r gives %d" % (i, j, tr, jr), detail(), mech)
                return
            u = new[j] if 0 <= j < len(new) else None
            same = (u == t) if not markup_only else (u is not None and u[0] == t[0] and (t[0] == "C" or u[1] == t[1]))
            if not same:
                ctx.violation("map-token", "old token %d %r is outside the map's ranges %r but the new document has %r at the mapped position %d"
                              % (i, t, tr, u, j), detail(), mech)
                return
            moved += 1
        ctx.count("tokens_tracked", moved)
        ctx.cover(["c03", self.sid, kind, self.origin, len(tr), delta > 0, delta < 0], nontrivial=bool(tr) or markup_only)


def _tj(doc):
    try:
        return doc.to_json()
    except Exception as e:  # pragma: no cover
        return repr(e)


def _depth(before, rs, pos):
    try:
        tk = flat.toks(before[4], rs.leaf)
        return len(flat.open_stack(tk, min(pos, len(tk))))
    except Exception:
        return -1
