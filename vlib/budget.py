"""Logical-step watchdog: counts LINE events (sys.monitoring, CPython 3.12) inside the code
objects of chosen modules and raises StepBudgetExceeded from the callback when a budget is
exceeded.  Deterministic (independent of machine load): this is what turns a hang into a
violation with a witness.  Wall-clock limits elsewhere only ever yield "inconclusive".
"""
import sys
import types

mon = getattr(sys, "monitoring", None)
TOOL = 3  # a free tool id (0 debugger, 1 coverage, 2 profiler, 5 optimizer)


class StepBudgetExceeded(BaseException):
    """BaseException so that no `except Exception` inside the library can swallow it."""


def codes_of(module):
    out = []
    seen = set()
    fn = getattr(module, "__file__", None)

    def add_code(co):
        if id(co) in seen or co.co_filename != fn:
            return
        seen.add(id(co))
        out.append(co)
        for c in co.co_consts:
            if isinstance(c, types.CodeType):
                add_code(c)

    def visit(obj, depth=0):
        if isinstance(obj, types.FunctionType):
            add_code(obj.__code__)
        elif isinstance(obj, (staticmethod, classmethod)):
            visit(obj.__func__, depth)
        elif isinstance(obj, property):
            for f in (obj.fget, obj.fset, obj.fdel):
                if f is not None:
                    visit(f, depth)
        elif isinstance(obj, type) and depth < 3 and getattr(obj, "__module__", None) == module.__name__:
            for v in vars(obj).values():
                visit(v, depth + 1)

    for v in list(vars(module).values()):
        visit(v)
    return out


_BY_CODE = {}
_REGISTERED = [False]


def _dispatch(code, line):
    w = _BY_CODE.get(code)
    if w is None or not w.active:
        return None
    w.count += 1
    if w.count > w.limit:
        w.active = False
        raise StepBudgetExceeded("more than %d lines executed, last in %s" % (w.limit, code.co_name))
    return None


class Watch:
    def __init__(self, modules, persistent=True):
        self.persistent = persistent
        self.codes = []
        for m in modules:
            self.codes += codes_of(m)
        self.count = 0
        self.limit = 0
        self.max_seen = 0
        self.active = False
        if mon is not None:
            try:
                mon.use_tool_id(TOOL, "verif-budget")
            except ValueError:
                pass
            if not _REGISTERED[0]:
                mon.register_callback(TOOL, mon.events.LINE, _dispatch)
                _REGISTERED[0] = True
            for co in self.codes:
                _BY_CODE[co] = self
            if persistent:
                for co in self.codes:
                    mon.set_local_events(TOOL, co, mon.events.LINE)

    def _line(self, code, line):
        if not self.active:
            return None
        self.count += 1
        if self.count > self.limit:
            self.active = False
            raise StepBudgetExceeded(
                "more than %d lines executed in %s" % (self.limit, code.co_name)
            )
        return None

    def run(self, limit, fn, *args, **kw):
        if mon is None:  # pragma: no cover
            return fn(*args, **kw)
        self.count = 0
        self.limit = limit
        if not self.persistent:
            for co in self.codes:
                mon.set_local_events(TOOL, co, mon.events.LINE)
        self.active = True
        try:
            return fn(*args, **kw)
        finally:
            self.active = False
            if not self.persistent:
                for co in self.codes:
                    mon.set_local_events(TOOL, co, 0)
            if self.count > self.max_seen:
                self.max_seen = self.count
