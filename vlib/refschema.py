"""Reference model 2: schemas, content expressions (as regular expressions decided by
Brzozowski derivatives), mark-set algebra and document validity.

Built from a schema *spec* (plain dicts), with its own content-expression parser; it never
looks at the library's compiled ContentMatch objects.
"""
import heapq
import json
import re

from .flat import akey

# ------------------------------------------------------------------ regex terms
# Hash-consed terms: every distinct term exists once, so equality is identity and all memo
# tables are keyed by object.  Normal form: alternatives flattened, deduplicated and sorted
# (ACI), concatenation right-nested, no EMPTY inside anything, star(star x) = star x.


class Term:
    __slots__ = ("k", "a", "b", "id", "null", "dcache", "fst")

    def __repr__(self):
        if self.k == "0":
            return "0"
        if self.k == "e":
            return "e"
        if self.k == "s":
            return str(self.a)
        if self.k == "cat":
            return "(%r %r)" % (self.a, self.b)
        if self.k == "alt":
            return "(" + "|".join(repr(x) for x in self.a) + ")"
        return "%r*" % (self.a,)


_INTERN = {}


class TooComplex(Exception):
    pass


MAX_TERMS = [2_000_000]


def _mk(k, a=None, b=None):
    if k == "alt":
        key = (k, tuple(x.id for x in a))
    else:
        key = (k, a.id if isinstance(a, Term) else a, b.id if isinstance(b, Term) else b)
    t = _INTERN.get(key)
    if t is None:
        t = Term()
        t.k, t.a, t.b = k, a, b
        t.id = len(_INTERN)
        t.dcache = {}
        t.fst = None
        if k in ("e", "star"):
            t.null = True
        elif k in ("0", "s"):
            t.null = False
        elif k == "cat":
            t.null = a.null and b.null
        else:
            t.null = any(x.null for x in a)
        _INTERN[key] = t
    return t


EMPTY = _mk("0")
EPS = _mk("e")
RESET_HOOKS = []


def maybe_reset(threshold=400_000):
    """Bound the memory of long runs: drop all interned terms (except the two constants) and
    every cache of objects that refer to terms.  Only called between cases."""
    if len(_INTERN) <= threshold:
        return False
    keep = {k: v for k, v in _INTERN.items() if v is EMPTY or v is EPS}
    _INTERN.clear()
    _INTERN.update(keep)
    for h in RESET_HOOKS:
        h()
    return True


def sym(t):
    return _mk("s", t)


def cat(a, b):
    if a is EMPTY or b is EMPTY:
        return EMPTY
    if a is EPS:
        return b
    if b is EPS:
        return a
    if a.k == "cat":
        return cat(a.a, cat(a.b, b))
    return _mk("cat", a, b)


def alt(*xs):
    s = {}
    for x in xs:
        if x is EMPTY:
            continue
        if x.k == "alt":
            for y in x.a:
                s[y.id] = y
        else:
            s[x.id] = x
    if not s:
        return EMPTY
    if len(s) == 1:
        return next(iter(s.values()))
    return _mk("alt", tuple(s[i] for i in sorted(s)))


def star(a):
    if a is EMPTY or a is EPS:
        return EPS
    if a.k == "star":
        return a
    return _mk("star", a)


def nullable(r):
    return r.null


def deriv(r, t):
    v = r.dcache.get(t)
    if v is not None:
        return v
    k = r.k
    if k == "0" or k == "e":
        v = EMPTY
    elif k == "s":
        v = EPS if r.a == t else EMPTY
    elif k == "cat":
        v = cat(deriv(r.a, t), r.b)
        if r.a.null:
            v = alt(v, deriv(r.b, t))
    elif k == "alt":
        v = alt(*[deriv(x, t) for x in r.a])
    else:
        v = cat(deriv(r.a, t), r)
    r.dcache[t] = v
    return v


def first(r):
    """Symbols t with a non-empty derivative."""
    v = r.fst
    if v is None:
        k = r.k
        if k == "s":
            v = frozenset([r.a])
        elif k == "cat":
            v = first(r.a) | first(r.b) if r.a.null else first(r.a)
        elif k == "alt":
            v = frozenset().union(*[first(x) for x in r.a])
        elif k == "star":
            v = first(r.a)
        else:
            v = frozenset()
        r.fst = v
    return v


def matches(r, seq):
    for t in seq:
        r = deriv(r, t)
        if r is EMPTY:
            return False
    return r.null


def run(r, seq):
    """Derivative after seq (EMPTY if the prefix is not extendable)."""
    for t in seq:
        r = deriv(r, t)
        if r is EMPTY:
            return EMPTY
    return r


def reachable(r, limit=3000):
    """All derivative states reachable from r (excluding EMPTY).  Raises TooComplex beyond
    `limit` states (the caller skips and counts such an expression)."""
    seen = {r}
    work = [r]
    while work:
        x = work.pop()
        for t in sorted(first(x)):
            y = deriv(x, t)
            if y is not EMPTY and y not in seen:
                seen.add(y)
                if len(seen) > limit:
                    raise TooComplex("more than %d derivative states" % limit)
                work.append(y)
    return seen


# ------------------------------------------------------------------ expression AST
# AST: ("name", n) | ("seq", [..]) | ("choice", [..]) | ("star", e) | ("plus", e)
#      | ("opt", e) | ("range", lo, hi, e)   hi == -1: unbounded


def ast_to_regex(ast, resolve):
    """resolve(name) -> list of type names (a type name resolves to itself, a group name to
    its members in schema order)."""
    k = ast[0]
    if k == "name":
        return alt(*[sym(t) for t in resolve(ast[1])])
    if k == "seq":
        r = EPS
        for e in reversed(ast[1]):
            r = cat(ast_to_regex(e, resolve), r)
        return r
    if k == "choice":
        return alt(*[ast_to_regex(e, resolve) for e in ast[1]])
    if k == "star":
        return star(ast_to_regex(ast[1], resolve))
    if k == "plus":
        x = ast_to_regex(ast[1], resolve)
        return cat(x, star(x))
    if k == "opt":
        return alt(EPS, ast_to_regex(ast[1], resolve))
    if k == "range":
        lo, hi, e = ast[1], ast[2], ast[3]
        x = ast_to_regex(e, resolve)
        r = star(x) if hi == -1 else EPS
        if hi != -1:
            for _ in range(max(0, hi - lo)):
                r = alt(EPS, cat(x, r))
        for _ in range(lo):
            r = cat(x, r)
        return r
    raise ValueError(ast)


def ast_print(ast, rnd=None):
    """Expression string; with `rnd`, random spacing and redundant parentheses."""

    def sp():
        return " " * rnd.randint(0, 2) if rnd else ""

    def wrap(s):
        if rnd and rnd.random() < 0.15:
            return "(" + sp() + s + sp() + ")"
        return s

    def p(a, ctx):
        k = a[0]
        if k == "name":
            return wrap(a[1])
        if k == "seq":
            s = (" " + sp()).join(p(e, "seq") for e in a[1])
            return "(" + s + ")" if ctx in ("post", "seq") or len(a[1]) < 2 else wrap(s)
        if k == "choice":
            s = (sp() + "|" + sp()).join(p(e, "choice") for e in a[1])
            return "(" + s + ")" if ctx != "top" or len(a[1]) < 2 else s
        if k in ("star", "plus", "opt"):
            return p(a[1], "post") + sp() + {"star": "*", "plus": "+", "opt": "?"}[k]
        if k == "range":
            lo, hi, e = a[1], a[2], a[3]
            if hi == lo:
                r = "{%s%d%s}" % (sp(), lo, sp())
            elif hi == -1:
                r = "{%s%d%s,%s}" % (sp(), lo, sp(), sp())
            else:
                r = "{%s%d%s,%s%d%s}" % (sp(), lo, sp(), sp(), hi, sp())
            return p(e, "post") + sp() + r
        raise ValueError(a)

    return p(ast, "top")


class ExprError(Exception):
    pass


_TOK = re.compile(r"\w+|\W")


def parse_expr(string):
    """Own parser for content expressions -> AST (None for the empty expression)."""
    toks = [t for t in _TOK.findall(string) if t.strip()]
    pos = [0]

    def peek():
        return toks[pos[0]] if pos[0] < len(toks) else None

    def eat(t):
        if peek() == t:
            pos[0] += 1
            return True
        return False

    def expr():
        xs = [seq()]
        while eat("|"):
            xs.append(seq())
        return xs[0] if len(xs) == 1 else ("choice", xs)

    def seq():
        xs = []
        while True:
            xs.append(sub())
            n = peek()
            if n is None or n == ")" or n == "|":
                break
        return xs[0] if len(xs) == 1 else ("seq", xs)

    def num():
        n = peek()
        if n is None or not n.isdigit():
            raise ExprError("number expected")
        pos[0] += 1
        return int(n)

    def sub():
        e = atom()
        while True:
            if eat("+"):
                e = ("plus", e)
            elif eat("*"):
                e = ("star", e)
            elif eat("?"):
                e = ("opt", e)
            elif eat("{"):
                lo = num()
                hi = lo
                if eat(","):
                    hi = -1 if peek() == "}" else num()
                if not eat("}"):
                    raise ExprError("unclosed range")
                e = ("range", lo, hi, e)
            else:
                return e

    def atom():
        if eat("("):
            e = expr()
            if not eat(")"):
                raise ExprError("missing )")
            return e
        n = peek()
        if n is None or not re.match(r"\w", n):
            raise ExprError("unexpected token %r" % (n,))
        pos[0] += 1
        return ("name", n)

    if not toks:
        return None
    e = expr()
    if peek() is not None:
        raise ExprError("trailing text")
    return e


def ast_names(ast):
    k = ast[0]
    if k == "name":
        return [ast[1]]
    if k in ("seq", "choice"):
        out = []
        for e in ast[1]:
            out += ast_names(e)
        return out
    if k == "range":
        return ast_names(ast[3])
    return ast_names(ast[1])


def ast_size(ast):
    k = ast[0]
    if k == "name":
        return 1
    if k in ("seq", "choice"):
        return 1 + sum(ast_size(e) for e in ast[1])
    if k == "range":
        return 1 + ast_size(ast[3])
    return 1 + ast_size(ast[1])


# ------------------------------------------------------------------ schema


class RNodeType:
    pass


class RMarkType:
    pass


class SchemaRejected(Exception):
    """The reference says this spec must be rejected by Schema()."""


class RefSchema:
    def __init__(self, spec):
        self.spec = spec
        nodes = spec["nodes"]
        marks = spec.get("marks", {}) or {}
        self.top = spec.get("topNode") or "doc"
        self.marks = {}
        for rank, (name, ms) in enumerate(marks.items()):
            m = RMarkType()
            m.name = name
            m.rank = rank
            m.spec = ms
            m.attrs = {
                a: ("default" in s, s.get("default")) for a, s in (ms.get("attrs") or {}).items()
            }
            m.groups = ms["group"].split(" ") if ms.get("group") else []
            m.inclusive = ms.get("inclusive") is not False
            self.marks[name] = m
        for m in self.marks.values():
            ex = m.spec.get("excludes")
            if ex is None:
                m.excludes = frozenset([m.name])
            elif ex == "":
                m.excludes = frozenset()
            else:
                m.excludes = frozenset(self._gather_marks(ex.split(" ")))
        self.nodes = {}
        for name, ns in nodes.items():
            t = RNodeType()
            t.name = name
            t.spec = ns
            t.groups = ns["group"].split(" ") if "group" in ns else []
            t.attrs = {
                a: ("default" in s, s.get("default")) for a, s in (ns.get("attrs") or {}).items()
            }
            t.is_text = name == "text"
            t.inline = bool(ns.get("inline")) or t.is_text
            t.isolating = bool(ns.get("isolating"))
            t.code = bool(ns.get("code"))
            t.required_attrs = any(not d for d, _ in t.attrs.values())
            self.nodes[name] = t
        if self.top not in self.nodes or "text" not in self.nodes:
            raise SchemaRejected("missing top/text")
        for t in self.nodes.values():
            expr = t.spec.get("content", "") or ""
            try:
                t.ast = parse_expr(expr)
            except ExprError as e:
                raise SchemaRejected(str(e))
            if t.ast is None:
                t.regex = EPS
                t.is_leaf = True
            else:
                for n in ast_names(t.ast):
                    if not self.resolve(n):
                        raise SchemaRejected("unknown name " + n)
                t.regex = ast_to_regex(t.ast, self.resolve)
                t.is_leaf = False
            names = {x for n in (ast_names(t.ast) if t.ast else []) for x in self.resolve(n)}
            kinds = {self.nodes[x].inline for x in names}
            if len(kinds) > 1:
                raise SchemaRejected("mixing inline and block")
            t.symbols = names
        for t in self.nodes.values():
            f = first(t.regex)
            t.inline_content = bool(f) and any(self.nodes[x].inline for x in f)
            me = t.spec.get("marks")
            if me == "_":
                t.mark_set = None
            elif me:
                t.mark_set = frozenset(self._gather_marks(me.split(" ")))
            elif me == "" or not t.inline_content:
                t.mark_set = frozenset()
            else:
                t.mark_set = None
        self.leaf = frozenset(n for n, t in self.nodes.items() if t.is_leaf and not t.is_text)
        # dead ends: a reachable non-accepting state all of whose continuations are
        # non-generatable
        for t in self.nodes.values():
            for st in reachable(t.regex):
                if nullable(st):
                    continue
                if not any(self.generatable(x) for x in first(st)):
                    raise SchemaRejected("dead end in " + t.name)
        self._minsize = None
        # stronger reading of "required positions that only non-generatable nodes can
        # fill": from every reachable state an accepting state must be reachable through
        # generatable types alone (upstream only looks at the immediate edges)
        self.strong_dead_ends = []
        for t in self.nodes.values():
            for st in reachable(t.regex):
                if not self._gen_accepting_reachable(st):
                    self.strong_dead_ends.append(t.name)
                    break

    def text_merge_safe(self):
        """False if some content expression distinguishes one text node from two adjacent
        ones (e.g. 'text text', 'inline{2}'): adjacent text nodes with equal marks always
        merge, so such an expression cannot be kept satisfied by any editing operation."""
        if "text" not in self.nodes:
            return True
        for t in self.nodes.values():
            for st in reachable(t.regex):
                d1 = deriv(st, "text")
                if d1 is EMPTY:
                    continue
                d2 = deriv(d1, "text")
                if d2 is not EMPTY and d2 is not d1:
                    return False
        return True

    def _gen_accepting_reachable(self, st):
        seen = {st}
        work = [st]
        while work:
            x = work.pop()
            if nullable(x):
                return True
            for s_ in first(x):
                if self.generatable(s_):
                    y = deriv(x, s_)
                    if y not in seen:
                        seen.add(y)
                        work.append(y)
        return False

    # -- names
    def resolve(self, name):
        if name in self.nodes:
            return [name]
        return [n for n, t in self.nodes.items() if name in t.groups]

    def _gather_marks(self, names):
        out = []
        for n in names:
            if n in self.marks:
                out.append(n)
                continue
            found = [
                m.name for m in self.marks.values() if n == "_" or n in m.groups
            ]
            if not found:
                raise SchemaRejected("unknown mark " + n)
            out += found
        return out

    def generatable(self, tname):
        t = self.nodes[tname]
        return not t.is_text and not t.required_attrs

    # -- marks
    def allows_mark(self, tname, mname):
        ms = self.nodes[tname].mark_set
        return ms is None or mname in ms

    def excludes(self, a, b):
        return b in self.marks[a].excludes

    def canonical(self, marks):
        """marks: tuple of (name, attrs_key)."""
        for i, (n, a) in enumerate(marks):
            if n not in self.marks:
                return False
            if i and self.marks[marks[i - 1][0]].rank > self.marks[n].rank:
                return False
            for j in range(i):
                o = marks[j]
                if o == (n, a):
                    return False
                if self.excludes(n, o[0]) or self.excludes(o[0], n):
                    return False
        return True

    def ref_add(self, mark, marks):
        """Documented Mark.add_to_set on canonical `marks` (tuple of keys)."""
        n = mark[0]
        if mark in marks:
            return marks
        for o in marks:
            if self.excludes(o[0], n) and not self.excludes(n, o[0]):
                return marks
        kept = [o for o in marks if not self.excludes(n, o[0])]
        out = []
        placed = False
        for o in kept:
            if not placed and self.marks[o[0]].rank > self.marks[n].rank:
                out.append(mark)
                placed = True
            out.append(o)
        if not placed:
            out.append(mark)
        return tuple(out)

    # -- validity
    def valid_children(self, tname, children):
        """Content expression + child marks allowed (one level)."""
        t = self.nodes[tname]
        seq = ["text" if c[0] == "t" else c[1] for c in children]
        if not matches(t.regex, seq):
            return False
        for c in children:
            ms = c[2] if c[0] == "t" else c[3]
            for (mn, _a) in ms:
                if not self.allows_mark(tname, mn):
                    return False
        return True

    def why_invalid(self, c, path="doc"):
        """None if the plain tree `c` is fully valid, else a short reason."""
        if c[0] == "t":
            if c[1] == "":
                return path + ": empty text"
            if not self.canonical(c[2]):
                return path + ": non-canonical marks on text"
            return None
        if c[1] not in self.nodes:
            return path + ": unknown type " + c[1]
        if not self.canonical(c[3]):
            return path + ": non-canonical marks on " + c[1]
        t = self.nodes[c[1]]
        seq = ["text" if k[0] == "t" else k[1] for k in c[4]]
        if not matches(t.regex, seq):
            return path + ": content of %s is %s" % (c[1], " ".join(seq) or "(empty)")
        for i, k in enumerate(c[4]):
            ms = k[2] if k[0] == "t" else k[3]
            for (mn, _a) in ms:
                if not self.allows_mark(c[1], mn):
                    return path + ": mark %s not allowed in %s" % (mn, c[1])
            r = self.why_invalid(k, "%s/%s[%d]" % (path, c[1], i))
            if r:
                return r
        return None

    def valid(self, c):
        return self.why_invalid(c) is None

    # -- sizes / well-foundedness
    def minsize(self):
        """Minimal token size of a filled node per type (inf if none exists)."""
        if self._minsize is not None:
            return self._minsize
        INF = float("inf")
        ms = {n: (1 if (t.is_leaf or t.is_text) else INF) for n, t in self.nodes.items()}
        changed = True
        while changed:
            changed = False
            for n, t in self.nodes.items():
                if t.is_leaf or t.is_text:
                    continue
                v = 2 + self._cheapest(t.regex, ms)[0]
                if v < ms[n]:
                    ms[n] = v
                    changed = True
        self._minsize = ms
        return ms

    def _cheapest(self, r, ms):
        """(cost, sequence) of the cheapest word accepted from state r under weights ms."""
        heap = [(0, 0, r, ())]
        seen = set()
        cnt = 0
        while heap:
            cost, _, st, seq = heapq.heappop(heap)
            if st in seen:
                continue
            seen.add(st)
            if nullable(st):
                return cost, seq
            for t in sorted(first(st)):
                w = ms[t]
                if w == float("inf"):
                    continue
                nx = deriv(st, t)
                if nx not in seen:
                    cnt += 1
                    heapq.heappush(heap, (cost + w, cnt, nx, seq + (t,)))
        return float("inf"), None

    def cheapest_completion(self, r):
        return self._cheapest(r, self.minsize())

    def well_founded(self):
        ms = self.minsize()
        return all(v != float("inf") for v in ms.values())

    # -- wrapping reference (C15)
    def ref_wrapping(self, state, target):
        """Shortest chain [w1..wk] such that: state accepts w1 (or target when k=0); every
        w_i is a non-leaf type without required attrs; w_i accepts w_{i+1} as its ONLY child
        (start -w-> accepting); w_k accepts target as first child.  None if no chain.
        Returns the length of a shortest chain (BFS), and the predecessor structure is not
        needed by callers (they validate the library's chain themselves)."""
        if deriv(state, target) != EMPTY:
            return 0
        seen = set()
        frontier = []
        for w in sorted(first(state)):
            wt = self.nodes[w]
            if wt.is_leaf or wt.is_text or wt.required_attrs or w in seen:
                continue
            seen.add(w)
            frontier.append(w)
        k = 1
        while frontier:
            nxt = []
            for w in frontier:
                if deriv(self.nodes[w].regex, target) != EMPTY:
                    return k
            for w in frontier:
                r = self.nodes[w].regex
                for v in sorted(first(r)):
                    vt = self.nodes[v]
                    if vt.is_leaf or vt.is_text or vt.required_attrs or v in seen:
                        continue
                    if not nullable(deriv(r, v)):
                        continue
                    seen.add(v)
                    nxt.append(v)
            frontier = nxt
            k += 1
        return None

    def attrs_json(self, tname, given=None):
        t = self.nodes[tname]
        out = {}
        for a, (has, d) in t.attrs.items():
            v = None if given is None else given.get(a)
            if v is None:
                if not has:
                    raise ValueError("required attr")
                v = d
            out[a] = v
        return out


def default_attrs_key(rs, tname):
    return akey(rs.attrs_json(tname))


def mark_key(name, attrs):
    return (name, akey(attrs))


def loads(k):
    return json.loads(k)
