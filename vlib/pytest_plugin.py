"""pytest plugin: arm the online step monitor (C01 + C03 postconditions) while the
repository's own test suite runs, so that every Step.apply any test makes is judged too.
Enabled with `-p vlib.pytest_plugin`; results go to $VERIF_PLUGIN_OUT as JSON."""
import json
import os

_state = {}


def pytest_sessionstart(session):
    from . import env  # noqa: F401
    from .monitors.step import StepMonitor
    from .runner import Ctx

    ctx = Ctx(os.environ.get("VERIF_PLUGIN_PROP", "C01"), "quick", 0)
    ctx.case = {"seed": 0, "index": -1, "tier": "quick", "workload": "repository test suite"}
    mon = StepMonitor(ctx, c01=os.environ.get("VERIF_PLUGIN_PROP", "C01") == "C01", c03=os.environ.get("VERIF_PLUGIN_PROP") == "C03")
    mon.sid = "repo-tests"
    mon.origin = "repo-tests"
    mon.tag = "repo-tests"
    mon.arm()
    _state["ctx"] = ctx
    _state["mon"] = mon


def pytest_sessionfinish(session, exitstatus):
    ctx = _state.get("ctx")
    if ctx is None:
        return
    _state["mon"].disarm()
    out = os.environ.get("VERIF_PLUGIN_OUT")
    if out:
        with open(out, "w") as f:
            json.dump({"counters": ctx.counters, "violations": ctx.violations, "nviol": ctx.nviol, "exitstatus": int(exitstatus)}, f, default=str)
