"""Runtime-monitoring machinery for prosemirror-py (see /verif/DESIGN.md)."""
