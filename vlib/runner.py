"""Check driver: fan cases out over worker processes, merge what the monitors observed,
classify violations against known_findings.json, write evidence, set the exit code.

Every case i of a run is generated from its own RNG seeded with "<prop>:<seed>:<i>", so a
case is replayable on its own and the result does not depend on the number of workers.

Exit codes: 0 held on everything observed; 1 violation (VIOLATION line printed);
2 inconclusive (a deciding monitor saw too little, a worker timed out, or the harness
itself failed) - never folded into 0 or 1.
"""
import hashlib
import importlib
import json
import os
import random
import subprocess
import sys
import tempfile
import time
import traceback

from . import refschema  # noqa: E402

VERIF = os.path.dirname(os.path.dirname(os.path.abspath(__file__)))
PY = "/venv/bin/python"
MAX_WITNESS = 12


class Ctx:
    """What a property driver sees: counters, coverage buckets, samples, violations."""

    def __init__(self, prop, tier, seed):
        self.prop = prop
        self.tier = tier
        self.seed = seed
        self.case = None
        self.counters = {}
        self.buckets = set()
        self.trivial_buckets = set()
        self.samples = []
        self.violations = []
        self.nviol = 0
        self.viol_by_oracle = {}
        self.errors = []
        self.replaying = False

    def count(self, name, n=1):
        self.counters[name] = self.counters.get(name, 0) + n

    def ev(self, n=1):
        self.count("evaluations", n)

    def cover(self, key, nontrivial=True):
        (self.buckets if nontrivial else self.trivial_buckets).add(
            key if isinstance(key, str) else json.dumps(key, default=str)
        )

    def sample(self, obj, cap=3):
        if len(self.samples) < cap:
            self.samples.append(obj)

    def violation(self, oracle, message, detail=None, mech=None):
        """oracle: short name of the failed oracle; mech: small dict of structural facts the
        known-findings classifier may look at (never random values)."""
        self.nviol += 1
        self.viol_by_oracle[oracle] = self.viol_by_oracle.get(oracle, 0) + 1
        keep = self.viol_by_oracle[oracle] <= 3 and len(self.violations) < MAX_WITNESS
        mk = json.dumps(mech or {}, sort_keys=True, default=str)
        if not keep:
            # always keep one witness per distinct (oracle, mech)
            seen = {(v["oracle"], json.dumps(v["mech"], sort_keys=True, default=str)) for v in self.violations}
            keep = (oracle, mk) not in seen and len(self.violations) < 4 * MAX_WITNESS
        if keep:
            self.violations.append({
                "property": self.prop,
                "oracle": oracle,
                "message": str(message)[:2000],
                "mech": mech or {},
                "detail": detail or {},
                "case": dict(self.case or {}),
            })


def load_prop(prop):
    return importlib.import_module("vlib.props." + prop.lower())


def case_rng(prop, seed, i):
    return random.Random("%s:%d:%d" % (prop, seed, i))


def run_cases(mod, ctx, indices, deadline=None):
    for i in indices:
        if deadline is not None and time.time() > deadline:
            ctx.count("cases_skipped_deadline")
            continue
        ctx.case = {"seed": ctx.seed, "index": i, "tier": ctx.tier}
        if refschema.maybe_reset():
            ctx.count("reference_term_table_resets")
        rnd = case_rng(mod.ID, ctx.seed, i)
        try:
            mod.case(ctx, rnd, i)
            ctx.count("cases")
        except KeyboardInterrupt:
            raise
        except BaseException:
            if len(ctx.errors) < 5:
                ctx.errors.append({"case": dict(ctx.case), "trace": traceback.format_exc()[-3000:]})
            ctx.count("harness_errors")


def worker_main(prop, tier, seed, k, nworkers, outpath):
    from . import env  # noqa: F401

    # resident-memory cap: a library change that makes an operation grow without bound must end
    # in a MemoryError inside the case (judged there), not in the OOM killer
    try:
        import resource

        cap = int(os.environ.get("VERIF_WORKER_MEM_GB", "3")) << 30
        resource.setrlimit(resource.RLIMIT_AS, (cap, cap))
    except Exception:
        pass

    mod = load_prop(prop)
    ctx = Ctx(mod.ID, tier, seed)
    n = mod.cases(tier)
    t0 = time.time()
    deadline = t0 + mod.time_limit(tier) if hasattr(mod, "time_limit") else None
    if hasattr(mod, "setup"):
        mod.setup(ctx)
    run_cases(mod, ctx, range(k, n, nworkers), deadline)
    if hasattr(mod, "finish"):
        mod.finish(ctx)
    res = {
        "counters": ctx.counters,
        "buckets": sorted(ctx.buckets),
        "trivial_buckets": sorted(ctx.trivial_buckets),
        "samples": ctx.samples,
        "violations": ctx.violations,
        "nviol": ctx.nviol,
        "viol_by_oracle": ctx.viol_by_oracle,
        "errors": ctx.errors,
        "wall": time.time() - t0,
    }
    with open(outpath, "w") as f:
        json.dump(res, f, default=str)


def _merge(results):
    out = {
        "counters": {}, "buckets": set(), "trivial_buckets": set(), "samples": [],
        "violations": [], "nviol": 0, "viol_by_oracle": {}, "errors": [],
    }
    for r in results:
        for k, v in r["counters"].items():
            if k.startswith("max_"):
                out["counters"][k] = max(out["counters"].get(k, 0), v)
            else:
                out["counters"][k] = out["counters"].get(k, 0) + v
        out["buckets"].update(r["buckets"])
        out["trivial_buckets"].update(r["trivial_buckets"])
        out["samples"] += r["samples"]
        out["violations"] += r["violations"]
        out["nviol"] += r["nviol"]
        for k, v in r["viol_by_oracle"].items():
            out["viol_by_oracle"][k] = out["viol_by_oracle"].get(k, 0) + v
        out["errors"] += r["errors"]
    return out


def write_evidence(mod, tier, seed, merged, wall, nviol_unlisted, known_seen, verdict, extra=None):
    cov = {
        "evaluations": int(merged["counters"].get("evaluations", 0)),
        "distinct_nontrivial": len(merged["buckets"]),
        "rule": mod.RULE,
        "samples": merged["samples"][:6] or ["(no sample recorded)"],
        "trivial_buckets": len(merged["trivial_buckets"]),
        "counters": {k: merged["counters"][k] for k in sorted(merged["counters"])},
        "verdict": verdict,
        "known_findings_observed": known_seen,
        "bucket_examples": sorted(merged["buckets"])[:12],
    }
    if getattr(mod, "EXHAUSTIVE", None):
        ex = mod.EXHAUSTIVE(tier) if callable(mod.EXHAUSTIVE) else mod.EXHAUSTIVE
        if ex:
            cov["exhaustive"] = True
            cov["exhaustive_scope"] = ex
    if extra:
        cov.update(extra)
    ev = {
        "property_id": mod.ID,
        "tier": tier,
        "seed": seed,
        "level": getattr(mod, "LEVEL", "exploration"),
        "coverage": cov,
        "assumptions": list(getattr(mod, "ASSUMPTIONS", [])),
        "wall_s": round(wall, 2),
        "violations": nviol_unlisted,
    }
    evdir = os.environ.get("VERIF_EVIDENCE_DIR") or os.path.join(VERIF, "evidence")
    os.makedirs(evdir, exist_ok=True)
    path = os.path.join(evdir, mod.ID + ".json")
    tmp = path + ".tmp"
    with open(tmp, "w") as f:
        json.dump(ev, f, indent=1, default=str, ensure_ascii=True)
        f.write("\n")
    os.replace(tmp, path)
    return path


def write_replay(v):
    d = os.path.join(os.environ["VERIF_EVIDENCE_DIR"], "replays") if os.environ.get("VERIF_EVIDENCE_DIR") else os.path.join(VERIF, "replays")
    os.makedirs(d, exist_ok=True)
    h = hashlib.sha1(json.dumps(v, sort_keys=True, default=str).encode()).hexdigest()[:12]
    path = os.path.join(d, "%s-%s.json" % (v["property"], h))
    with open(path, "w") as f:
        json.dump(v, f, indent=1, default=str)
        f.write("\n")
    return path


def main(argv=None):
    import argparse

    ap = argparse.ArgumentParser(prog="check")
    ap.add_argument("prop")
    ap.add_argument("--tier", default=os.environ.get("VERIF_TIER") or "quick", choices=["quick", "thorough"])
    ap.add_argument("--seed", type=int, default=None)
    ap.add_argument("--replay", default=None)
    ap.add_argument("--workers", type=int, default=int(os.environ.get("VERIF_WORKERS", "0")) or (os.cpu_count() or 4))
    ap.add_argument("--worker", nargs=2, default=None, help=argparse.SUPPRESS)
    ap.add_argument("--out", default=None, help=argparse.SUPPRESS)
    a = ap.parse_args(argv)
    prop = a.prop.upper()
    seed = a.seed
    if seed is None:
        try:
            seed = int(os.environ.get("VERIF_SEED", "0") or 0)
        except ValueError:
            seed = 0
    os.environ["PYTHONHASHSEED"] = "0"
    os.environ["PYTHONDONTWRITEBYTECODE"] = "1"

    if a.worker:
        worker_main(prop, a.tier, seed, int(a.worker[0]), int(a.worker[1]), a.out)
        return 0
    if a.replay:
        return replay(prop, a.replay)

    from . import known

    mod = load_prop(prop)
    t0 = time.time()
    nw = max(1, min(a.workers, mod.cases(a.tier)))
    tmpd = tempfile.mkdtemp(prefix="verif-%s-" % prop)
    procs = []
    wall_limit = getattr(mod, "WALL", {"quick": 900, "thorough": 7200})[a.tier]
    for k in range(nw):
        out = os.path.join(tmpd, "w%d.json" % k)
        cmd = [PY, "-X", "faulthandler", os.path.join(VERIF, "check"), prop, "--tier", a.tier, "--seed", str(seed),
               "--worker", str(k), str(nw), "--out", out]
        procs.append((k, out, subprocess.Popen(cmd, cwd=VERIF, stdout=subprocess.PIPE, stderr=subprocess.STDOUT)))
    results = []
    problems = []
    for k, out, p in procs:
        try:
            so, _ = p.communicate(timeout=max(1, wall_limit - (time.time() - t0)))
        except subprocess.TimeoutExpired:
            p.kill()
            so, _ = p.communicate()
            problems.append("worker %d exceeded the wall-clock limit" % k)
            continue
        if p.returncode != 0 or not os.path.exists(out):
            problems.append("worker %d exited %s: %s" % (k, p.returncode, so.decode(errors="replace")[-1500:]))
            continue
        with open(out) as f:
            results.append(json.load(f))
    for f in os.listdir(tmpd):
        os.unlink(os.path.join(tmpd, f))
    os.rmdir(tmpd)

    merged = _merge(results)
    # classify
    known_seen = {}
    unlisted = []
    for v in merged["violations"]:
        key = known.classify(v)
        if key:
            known_seen.setdefault(key, {"count": 0, "example": v})
            known_seen[key]["count"] += 1
        else:
            unlisted.append(v)
    # violations that were counted but whose witnesses were capped: attribute by oracle
    reasons = list(problems)
    if merged["errors"]:
        reasons.append("%d harness errors, first: %s" % (merged["counters"].get("harness_errors", 0), merged["errors"][0]["trace"][-800:]))
    floors = mod.floors(a.tier) if hasattr(mod, "floors") else {}
    for name, lo in floors.items():
        got = len(merged["buckets"]) if name == "distinct_nontrivial" else merged["counters"].get(name, 0)
        if got < lo:
            reasons.append("monitor floor not reached: %s=%d < %d" % (name, got, lo))
    if unlisted:
        verdict = "violated"
    elif reasons:
        verdict = "inconclusive"
    else:
        verdict = "held"
    wall = time.time() - t0
    ks = {k: {"count": v["count"], "example": {"oracle": v["example"]["oracle"], "message": v["example"]["message"][:300], "mech": v["example"]["mech"], "case": v["example"]["case"]}} for k, v in known_seen.items()}
    path = write_evidence(mod, a.tier, seed, merged, wall, len(unlisted), ks, verdict,
                          extra={"violations_by_oracle": merged["viol_by_oracle"]} if merged["viol_by_oracle"] else None)
    c = merged["counters"]
    print("%s tier=%s seed=%d workers=%d wall=%.1fs cases=%d evaluations=%d distinct_nontrivial=%d" % (
        prop, a.tier, seed, nw, wall, c.get("cases", 0), c.get("evaluations", 0), len(merged["buckets"])))
    for k in sorted(c):
        if k not in ("cases", "evaluations"):
            print("  %-40s %s" % (k, c[k]))
    for key, info in known_seen.items():
        print("KNOWN-FINDING: property=%s %s (%d witnesses this run; %s)" % (prop, known.describe(key), info["count"], key))
    if unlisted:
        seen = set()
        per_oracle = {}
        for v in unlisted:
            sig = (v["oracle"], json.dumps(v["mech"], sort_keys=True, default=str))
            if sig in seen or per_oracle.get(v["oracle"], 0) >= 2:
                continue
            seen.add(sig)
            per_oracle[v["oracle"]] = per_oracle.get(v["oracle"], 0) + 1
            rp = write_replay(v)
            print("  oracle=%s %s" % (v["oracle"], v["message"][:400].replace("\n", " | ")))
            print("VIOLATION property=%s replay=%s" % (prop, rp))
        print("evidence: %s" % path)
        return 1
    if reasons:
        for r in reasons:
            print("INCONCLUSIVE property=%s reason=%s" % (prop, r))
        return 2
    print("HELD property=%s on everything observed; evidence: %s" % (prop, path))
    return 0


def replay(prop, path):
    from . import env  # noqa: F401
    from . import known

    with open(path) as f:
        v = json.load(f)
    mod = load_prop(prop)
    c = v["case"]
    ctx = Ctx(mod.ID, c.get("tier", "quick"), c["seed"])
    ctx.replaying = True
    if hasattr(mod, "setup"):
        mod.setup(ctx)
    run_cases(mod, ctx, [c["index"]])
    for e in ctx.errors:
        print(e["trace"])
    bad = [w for w in ctx.violations if not known.classify(w)]
    for w in ctx.violations:
        print(json.dumps(w, indent=1, default=str)[:6000])
    if bad:
        print("VIOLATION property=%s replay=%s" % (prop, path))
        return 1
    if ctx.errors:
        print("INCONCLUSIVE property=%s reason=harness error during replay" % prop)
        return 2
    print("replay: case %s did not violate %s on this tree" % (c, prop))
    return 0
