"""Known findings: genuine defects that are recorded rather than repaired.

/verif/known_findings.json is committed and read-only at run time.  An entry with
status "known" names a classifier key; the predicate for that key lives here and looks only
at the *mechanism* of a witness (oracle name + structural facts in `mech`), never at seeds,
hashes or random values.  Entries with status "fixed" suppress nothing.
"""
import json
import os

_PATH = os.path.join(os.path.dirname(os.path.dirname(os.path.abspath(__file__))), "known_findings.json")
_entries = None

# key -> predicate(witness) ; registered by the property modules' classifiers below
PREDICATES = {}


def predicate(key):
    def deco(fn):
        PREDICATES[key] = fn
        return fn

    return deco


def entries():
    global _entries
    if _entries is None:
        with open(_PATH) as f:
            _entries = json.load(f)["findings"]
    return _entries


def classify(v):
    for e in entries():
        if e.get("status") != "known" or e["property"] != v["property"]:
            continue
        p = PREDICATES.get(e["key"])
        if p is not None and p(v):
            return e["key"]
    return None


def describe(key):
    for e in entries():
        if e["key"] == key:
            return e.get("short") or e["mechanism"]
    return key


# ---------------------------------------------------------------- predicates
# (added as findings are recorded; each must be a pure function of oracle + mech)


@predicate("C03-empty-gap-adjacent-ranges")
def _c03_empty_gap(v):
    m = v["mech"]
    return v["oracle"] == "map-token" and m.get("step") == "ReplaceAroundStep" and m.get("empty_gap") is True \
        and m.get("adjacent_ranges") is True


@predicate("C08-mirror-adjacent-pure-deletion")
def _c08_mirror(v):
    m = v["mech"]
    return v["oracle"] == "mirror-roundtrip" and m.get("at_end_of_adjacent_pure_deletion") is True and m.get("assoc") == 1


@predicate("C06-dead-end-behind-generatable-loop")
def _c06_dead_end(v):
    return v["oracle"] == "accepted-dead-end" and v["mech"].get("immediate_edge_check_passes") is True


@predicate("C11-silent-noop-positional-schema")
def _c11_noop(v):
    m = v["mech"]
    return v["oracle"] in ("middle-text", "invented-leaf", "delete-left-text") and m.get("noop") is True and m.get("flexible") is False


@predicate("C04-add-node-mark-invert-inexact")
def _c04_node_mark(v):
    m = v["mech"]
    return v["oracle"] in ("undo", "single-undo") and m.get("step") == "AddNodeMarkStep" and not m.get("failed") \
        and not m.get("already_present") and (m.get("displaced", 0) >= 2 or m.get("asymmetric") is True)


@predicate("C04-structure-around-leaf-slice")
def _c04_structure_leaf(v):
    m = v["mech"]
    return v["oracle"] in ("undo", "single-undo") and m.get("step") == "ReplaceAroundStep" and m.get("failed") is True \
        and m.get("structure") is True and m.get("slice_has_leaf") is True


@predicate("C12-lift-target-split-remainder")
def _c12_lift(v):
    m = v["mech"]
    return v["oracle"] == "approved-edit-failed" and m.get("helper") == "lift_target" and m.get("exc") == "TransformError" \
        and m.get("levels", 0) >= 2 and m.get("remainder_invalid_at_outer_level") is True \
        and m.get("remainder_invalid_at_range_level") is False


@predicate("C17-reparenting-validity")
def _c17_reparent(v):
    m = v["mech"]
    return v["oracle"] == "order-fails" and m.get("both_fail") is True and m.get("ancestor_token_removed") is True and m.get("validity_error") is True


@predicate("C17-reparenting-mark-step-one-order")
def _c17_reparent_mark(v):
    m = v["mech"]
    return v["oracle"] == "order-fails" and m.get("both_fail") is False and m.get("ancestor_token_removed") is True \
        and m.get("validity_error") is True and "AddMarkStep" in (m.get("A"), m.get("B"))


@predicate("C07-can-append-empty-node-of-unrelated-type")
def _c07_can_append_empty(v):
    m = v["mech"]
    return v["oracle"] == "can_append" and m.get("empty_argument") is True and m.get("expected") is True and m.get("types_share_a_first_child") is False


@predicate("C13-add-mark-strips-excluded-marks-inside-inline-container")
def _c13_box_strip(v):
    m = v["mech"]
    return v["oracle"] == "marks-effect" and m.get("op") == "add_mark" and m.get("token_directly_inside_inline_container") is True \
        and m.get("only_lost_marks_that_the_added_mark_excludes") is True


@predicate("C17-reparenting-mark-step-diverges")
def _c17_reparent_mark_div(v):
    m = v["mech"]
    return v["oracle"] == "diverged" and m.get("ancestor_token_removed") is True and m.get("differ_only_in_text_marks") is True \
        and m.get("token_sequences_equal") is False and "AddMarkStep" in (m.get("A"), m.get("B"))


@predicate("C18-payload-placed-outside-isolating")
def _c18_leak(v):
    m = v["mech"]
    if not (m.get("delete_family") is False and m.get("has_payload") is True
            and m.get("old_outside_tokens_preserved_in_order") is True
            and m.get("inner_replace_range_outside_isolating_node") is not True):
        return False
    # "node-split": the same placement outside seen from the node's side (content put next to
    # the node with the rest of the node's content continuing in it, or put in front of it with
    # equal leading tokens).  The slice side of the fitter, which does have a guard, is judged
    # separately (oracle slice-isolating-node-opened) and never matches here.
    if v["oracle"] not in ("leaked", "node-split"):
        return False
    # why the document side put payload outside: a payload node no level inside accepts directly
    # (first pass goes outwards before wrapping is tried), an open node of the slice joined with an
    # equally typed ancestor outside, or insert_point walking outwards (replace_range_with)
    return m.get("no_inside_level_accepts") is True or m.get("spine_type_is_outer_ancestor") is True or m.get("op") == "replace_range_with"


@predicate("C11-slice-node-open-on-both-sides")
def _c11_both_open(v):
    m = v["mech"]
    if m.get("slice_node_open_both_sides_non_prefix") is not True:
        return False
    return (v["oracle"] == "raised" and m.get("exc") == "ValueError" and str(m.get("msg", "")).startswith("Called contentMatchAt")) \
        or v["oracle"] == "invalid-result"


@predicate("C12-drop-point-slice-node-open-both-sides")
def _c12_both_open(v):
    m = v["mech"]
    return v["oracle"] == "approved-edit-failed" and m.get("helper") == "drop_point" and m.get("slice_node_open_both_sides_non_prefix") is True \
        and m.get("exc") == "ValueError" and str(m.get("msg", "")).startswith("Called contentMatchAt")


@predicate("C11-positional-schema-frontier-from-start")
def _c11_positional(v):
    m = v["mech"]
    return v["oracle"] == "raised" and m.get("flexible") is False and m.get("exc") == "ValueError" \
        and str(m.get("msg", "")).startswith("Called contentMatchAt")


@predicate("C11-positional-schema-cannot-join")
def _c11_cannot_join(v):
    m = v["mech"]
    return v["oracle"] == "raised" and m.get("schema") == "structure" and m.get("exc") == "TransformError" and m.get("msg") == "Cannot join"


@predicate("C11-positional-schema-null-frontier-match")
def _c11_null_match(v):
    m = v["mech"]
    return v["oracle"] == "raised" and m.get("schema") == "structure" and m.get("exc") == "AttributeError" \
        and "NoneType" in str(m.get("msg", ""))


@predicate("C04-same-type-marks-order")
def _c04_mark_order(v):
    m = v["mech"]
    return v["oracle"] in ("undo", "single-undo") and m.get("differs_only_in_same_type_mark_order") is True \
        and m.get("step") in ("RemoveNodeMarkStep", "RemoveMarkStep", "AddMarkStep", "AddNodeMarkStep") and not m.get("failed")
