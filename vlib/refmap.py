"""Reference model 3: the documented position-mapping rule for step maps and mappings.

Written from the documentation of StepMap / Mapping (ranges are (start, oldSize, newSize)
triples; a position before a range is unchanged, after it is shifted by newSize-oldSize,
inside it moves to the start or the end of the replacement depending on the association
side, forced at the range's own ends), not from map.py.
"""


def normal_ranges(ranges, inverted):
    """Triples in the coordinates the map is applied to (old side first)."""
    out = []
    diff = 0
    for i in range(0, len(ranges), 3):
        s, o, n = ranges[i], ranges[i + 1], ranges[i + 2]
        if inverted:
            out.append((s + diff, n, o))
            diff += n - o
        else:
            out.append((s, o, n))
    return out


class R:
    __slots__ = ("pos", "deleted", "before", "after", "across", "recover_none", "index", "offset", "inside")

    def __repr__(self):
        return "R(pos=%s deleted=%s before=%s after=%s across=%s recover_none=%s index=%s)" % (
            self.pos, self.deleted, self.before, self.after, self.across, self.recover_none, self.index)


def map_pos(tr, pos, assoc):
    """tr = normal triples.  Full reference result."""
    r = R()
    diff = 0
    for k, (s, o, n) in enumerate(tr):
        if s > pos:
            break
        e = s + o
        if pos <= e:
            if o == 0:
                side = assoc
            elif pos == s:
                side = -1
            elif pos == e:
                side = 1
            else:
                side = assoc
            r.pos = s + diff + (0 if side < 0 else n)
            r.index = k
            r.offset = pos - s
            r.inside = True
            r.after = pos < e or (o == 0)  # library convention for pure insertions, not judged when o == 0
            r.before = pos > s
            r.across = s < pos < e
            r.deleted = (pos != s) if assoc < 0 else (pos != e)
            r.recover_none = pos == (s if assoc < 0 else e)
            return r
        diff += n - o
    r.pos = pos + diff
    r.index = None
    r.offset = None
    r.inside = False
    r.after = r.before = r.across = r.deleted = False
    r.recover_none = True
    return r


def for_each_ref(tr):
    """(old_start, old_end, new_start, new_end) per range."""
    out = []
    diff = 0
    for (s, o, n) in tr:
        out.append((s, s + o, s + diff, s + diff + n))
        diff += n - o
    return out


def size_delta(tr):
    return sum(n - o for (_s, o, n) in tr)


def fold(maps, pos, assoc):
    """maps: list of normal-triple lists; plain left-to-right composition."""
    for tr in maps:
        pos = map_pos(tr, pos, assoc).pos
    return pos


def token_outside(tr, i):
    """Is old token index i outside every replaced range?"""
    for (s, o, _n) in tr:
        if s <= i < s + o:
            return False
    return True
