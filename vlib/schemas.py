"""Schema catalogue: bundled schemas, the hand-written variants of them, the independent
hand-written schemas of the upstream tests, and a random well-founded schema generator.

Each entry pairs the library's Schema with the reference RefSchema built from the same
spec dict.
"""
from . import env  # noqa: F401
from .refschema import RefSchema, SchemaRejected, TooComplex

from prosemirror.model import Schema


class Sch:
    def __init__(self, sid, schema, cls):
        self.id = sid
        self.schema = schema
        self.ref = RefSchema(schema.spec)
        self.cls = cls  # "bundled" | "variant" | "other" | "random"
        self.leaf = self.ref.leaf

    @property
    def totality(self):
        return self.cls in ("bundled", "variant")


_CAT = None


def _reset():
    global _CAT
    _CAT = None


from . import refschema as _rsm  # noqa: E402

_rsm.RESET_HOOKS.append(_reset)

TOTALITY = ("basic", "list", "strict", "title", "iso", "table", "isolist", "topmarks", "section")
FLEXIBLE = ("basic", "list", "iso", "isolist", "table", "topmarks")
ISOLATING = ("iso", "table", "isolist", "isomarks")


def catalogue():
    global _CAT
    if _CAT is not None:
        return _CAT
    from prosemirror.schema.basic import schema as SB
    from prosemirror.test_builder import test_schema as S0

    base = dict(S0.spec["nodes"])
    marks = S0.spec["marks"]
    out = {}
    out["basic"] = Sch("basic", SB, "bundled")
    out["list"] = Sch("list", S0, "bundled")

    def variant(sid, upd, cls="variant", mk=marks):
        n = dict(base)
        n.update(upd)
        out[sid] = Sch(sid, Schema({"nodes": n, "marks": mk}), cls)

    variant("strict", {"doc": {"content": "heading body"}, "body": {"content": "block+"}})
    variant("title", {"title": {"content": "text*"}, "doc": {"content": "title? block*"}})
    variant("iso", {"iso": {"group": "block", "content": "block+", "isolating": True}})
    variant(
        "table",
        {
            "table": {"group": "block", "content": "row+", "isolating": True},
            "row": {"content": "cell+"},
            "cell": {"content": "block+", "isolating": True},
        },
    )
    variant("isolist", {"list_item": {**base["list_item"], "isolating": True}})
    # isolating container in a schema whose containers allow marks on their block children
    variant("isomarks", {"iso": {"group": "block", "content": "block+", "isolating": True, "marks": "_"},
                         "doc": {**base["doc"], "marks": "_"}, "blockquote": {**base["blockquote"], "marks": "_"}})
    # a container whose first child is fixed: it shares its first child type (heading) with
    # blockquote / doc at a different edge position of their expressions
    variant("section", {"section": {"group": "block", "content": "heading block*"}})
    variant("topmarks", {"doc": {**base["doc"], "marks": "_"}})
    out["structure"] = Sch(
        "structure",
        Schema({
            "nodes": {
                "doc": {"content": "head? block* sect* closing?"},
                "para": {"content": "text*", "group": "block"},
                "head": {"content": "text*", "marks": ""},
                "figure": {"content": "caption figureimage", "group": "block"},
                "quote": {"content": "block+", "group": "block"},
                "figureimage": {},
                "caption": {"content": "text*", "marks": ""},
                "sect": {"content": "head block* sect*"},
                "closing": {"content": "text*"},
                "text": {"group": "inline"},
                "fixed": {"content": "head para closing", "group": "block"},
            },
            "marks": {"em": {}},
        }),
        "other",
    )
    out["fixed"] = Sch(
        "fixed",
        Schema({
            "nodes": {
                "doc": {"content": "block+"},
                "a": {"content": "inline*"},
                "b": {"content": "inline*"},
                "block": {"content": "a b"},
                "text": {"group": "inline"},
            }
        }),
        "other",
    )
    _CAT = out
    return out


def get(sid):
    return catalogue()[sid]


def ids(cls=None):
    c = catalogue()
    if cls is None:
        return list(c)
    return [k for k, v in c.items() if v.cls in cls]


# ------------------------------------------------------------------ random schemas

_ATTR_VALUES = [1, 2, "x", "yz"]


def random_spec(rnd, with_marks=True, gen_expr=None):
    """A random schema spec: 3-7 node types, groups, inline leaves, required attributes,
    mark restrictions, 2-5 mark types with random exclusion.  Not yet filtered for
    well-foundedness (see random_schema)."""
    from .gen import bounded_ast as random_ast
    from .refschema import ast_print

    nblock = rnd.randint(2, 5)
    blocks = ["b%d" % i for i in range(nblock)]
    inlines = ["text"] + ["i%d" % i for i in range(rnd.randint(0, 2))]
    # group names that contain one another (and a mark name): membership is by whole token
    groups_b = (["gblock"] + (["gblockx"] if rnd.random() < 0.4 else [])) if rnd.random() < 0.7 else []
    mnames = ["m%d" % i for i in range(rnd.randint(2, 5))] if with_marks else []
    mgroups = rnd.sample(["mg", "mgx", "xmg", "g", "xm1"], rnd.randint(1, 3)) if mnames and rnd.random() < 0.5 else []
    marks = {}
    for m in mnames:
        s = {}
        r = rnd.random()
        if r < 0.15:
            s["excludes"] = "_"
        elif r < 0.3:
            s["excludes"] = ""
        elif r < 0.6:
            k = rnd.randint(1, min(3, len(mnames)))
            s["excludes"] = " ".join(rnd.sample(mnames + mgroups, min(k, len(mnames + mgroups))))
        if rnd.random() < 0.25:
            s["inclusive"] = False
        if mgroups and rnd.random() < 0.4:
            s["group"] = " ".join(rnd.sample(mgroups, rnd.randint(1, min(2, len(mgroups)))))
        if rnd.random() < 0.3:
            s["attrs"] = {"k": ({"default": 1} if rnd.random() < 0.5 else {})}
            if rnd.random() < 0.3:
                s["attrs"] = {"d": {"default": None}, **s["attrs"]}
        marks[m] = s
    for gname in mgroups:
        if not any(gname in s.get("group", "").split(" ") for s in marks.values()):
            tgt = marks[rnd.choice(mnames)]
            tgt["group"] = (tgt.get("group", "") + " " + gname).strip()

    nodes = {}
    textblocks = []
    for i, b in enumerate(blocks):
        s = {}
        if groups_b and rnd.random() < 0.7:
            s["group"] = " ".join(rnd.sample(groups_b, rnd.randint(1, len(groups_b))))
        kind = rnd.random()
        if i == 0 or kind < 0.45:
            # textblock
            al = inlines + (["inline"] if len(inlines) > 1 else [])
            s["content"] = ast_print(random_ast(rnd, al, rnd.randint(1, 4)), rnd)
            textblocks.append(b)
        elif kind < 0.6:
            pass  # block leaf
        else:
            s["_container"] = True
        if rnd.random() < 0.25:
            s["attrs"] = {"a": ({"default": rnd.choice(_ATTR_VALUES)} if rnd.random() < 0.6 else {})}
            if rnd.random() < 0.4:
                # several attributes, with and without default, in either declaration order
                more = {"z": ({"default": rnd.choice(_ATTR_VALUES)} if rnd.random() < 0.5 else {})}
                s["attrs"] = {**more, **s["attrs"]} if rnd.random() < 0.5 else {**s["attrs"], **more}
        if rnd.random() < 0.15:
            s["isolating"] = True
        if rnd.random() < 0.15:
            s["defining"] = True
        nodes[b] = s
    names_b = blocks + [g for g in groups_b if any(g in nodes[b].get("group", "").split(" ") for b in blocks)]
    for b in blocks:
        if nodes[b].pop("_container", None):
            nodes[b]["content"] = ast_print(random_ast(rnd, names_b, rnd.randint(1, 5)), rnd)
    for b in blocks:
        if "content" in nodes[b] and mnames:
            r = rnd.random()
            if r < 0.15:
                nodes[b]["marks"] = ""
            elif r < 0.3:
                nodes[b]["marks"] = "_"
            elif r < 0.5:
                nodes[b]["marks"] = " ".join(
                    rnd.sample(mnames + mgroups, rnd.randint(1, len(mnames)))
                )
    for n in inlines:
        if n == "text":
            nodes["text"] = {"group": "inline"}
        else:
            s = {"inline": True, "group": "inline"}
            if rnd.random() < 0.3:
                s["attrs"] = {"a": ({"default": 1} if rnd.random() < 0.5 else {})}
                if rnd.random() < 0.4:
                    s["attrs"] = {"d": {"default": "v"}, **s["attrs"]}
            nodes[n] = s
    doc = {"content": ast_print(random_ast(rnd, names_b, rnd.randint(1, 5)), rnd)}
    if mnames and rnd.random() < 0.2:
        doc["marks"] = "_"
    if rnd.random() < 0.3:
        doc["attrs"] = {"meta": {"default": None}}
    order = ["doc"] + blocks + inlines
    rnd.shuffle(order)
    spec = {"nodes": {n: ({"doc": doc} | nodes)[n] for n in order}}
    if marks:
        spec["marks"] = marks
    return spec


def default_children(nt):
    """The node types the documented default filling puts into an empty node of type nt:
    depth-first over the compiled automaton's edges in order, generatable types only, first
    path that reaches a valid end (read through the public edge()/valid_end interface; the
    automaton itself is judged by C06)."""
    start = nt.content_match
    seen = [start]

    def search(m, types):
        if m.valid_end:
            return types
        for k in range(m.edge_count):
            e = m.edge(k)
            t = e.type
            if t.is_text or t.has_required_attrs() or any(e.next is x for x in seen):
                continue
            seen.append(e.next)
            r = search(e.next, types + [t])
            if r is not None:
                return r
        return None

    return search(start, [])


def default_fillable(schema):
    """Upstream documents that the first type of a required position must be creatable
    without recursion (otherwise create_and_fill overflows the stack); True iff the
    default-child graph of the schema has no cycle."""
    graph = {}
    for name, nt in schema.nodes.items():
        if nt.is_text or nt.is_leaf:
            graph[name] = []
            continue
        ch = default_children(nt)
        graph[name] = [] if ch is None else [t.name for t in ch]
    state = {}

    def visit(n):
        if state.get(n) == 1:
            return False
        if state.get(n) == 2:
            return True
        state[n] = 1
        for c in graph[n]:
            if not visit(c):
                return False
        state[n] = 2
        return True

    return all(visit(n) for n in graph)


def random_schema(rnd, tries=60, **kw):
    """Sch for a random well-founded schema, or None.  Rejections are reported through the
    returned counters dict so that callers can put them into the evidence."""
    stats = {"rejected_by_ref": 0, "not_well_founded": 0, "library_rejected": 0, "not_default_fillable": 0}
    for _ in range(tries):
        spec = random_spec(rnd, **kw)
        if _LAST_SPEC and rnd.random() < 0.25:
            # a twin of the schema built before in this process: same node names in the same
            # order, same content-expression strings, other group memberships / mark specs (two
            # schemas alive at once must not influence each other)
            tw = twin_spec(rnd, _LAST_SPEC[0])
            if tw is not None:
                spec = tw
        try:
            ref = RefSchema(spec)
        except SchemaRejected:
            stats["rejected_by_ref"] += 1
            continue
        except TooComplex:
            stats["too_complex"] = stats.get("too_complex", 0) + 1
            continue
        if not ref.well_founded():
            stats["not_well_founded"] += 1
            continue
        if not ref.text_merge_safe():
            stats["counts_text_nodes"] = stats.get("counts_text_nodes", 0) + 1
            continue
        if ref.strong_dead_ends:
            stats["dead_end_behind_loop"] = stats.get("dead_end_behind_loop", 0) + 1
            continue
        try:
            s = Schema(spec)
        except Exception:
            # disagreement about acceptance is C06's business; here just skip
            stats["library_rejected"] += 1
            continue
        if not default_fillable(s):
            stats["not_default_fillable"] += 1
            continue
        sc = Sch.__new__(Sch)
        sc.id = "random"
        sc.schema = s
        sc.ref = ref
        sc.cls = "random"
        sc.leaf = ref.leaf
        sc.spec = spec
        sc.stats = stats
        if not _can_generate(sc):
            stats["no_document_generated"] = stats.get("no_document_generated", 0) + 1
            continue
        _LAST_SPEC[:] = [spec]
        return sc
    return None


_LAST_SPEC = []


def twin_spec(rnd, spec):
    import copy

    tw = {"nodes": {n: dict(v) for n, v in spec["nodes"].items()}}
    if "marks" in spec:
        tw["marks"] = copy.deepcopy(spec["marks"])
    grouped = [n for n, v in tw["nodes"].items() if v.get("group") and n != "text" and not v.get("inline")]
    plain = [n for n, v in tw["nodes"].items() if not v.get("group") and n not in ("doc", "text") and not v.get("inline")]
    if not grouped:
        return None
    changed = False
    if plain and rnd.random() < 0.7:
        src = rnd.choice(grouped)
        tw["nodes"][rnd.choice(plain)]["group"] = tw["nodes"][src]["group"]
        changed = True
    if len(grouped) > 1 and rnd.random() < 0.6:
        del tw["nodes"][rnd.choice(grouped)]["group"]
        changed = True
    for n, v in tw["nodes"].items():
        if "marks" in v and rnd.random() < 0.3:
            v["marks"] = rnd.choice(["_", ""])
            changed = True
    return tw if changed else None


def _can_generate(sc):
    import random as _r

    from .gen import DocGen
    try:
        for k in range(2):
            DocGen(sc, _r.Random(k)).doc()
        return True
    except Exception:
        return False


def _mk_sch(spec, sid):
    try:
        ref = RefSchema(spec)
    except (SchemaRejected, TooComplex):
        return None
    if not ref.well_founded() or ref.strong_dead_ends or not ref.text_merge_safe():
        return None
    try:
        s = Schema(spec)
    except Exception:
        return None
    if not default_fillable(s):
        return None
    sc = Sch.__new__(Sch)
    sc.id = sid
    sc.schema = s
    sc.ref = ref
    sc.cls = "random"
    sc.leaf = ref.leaf
    sc.spec = spec
    sc.stats = {}
    return sc if _can_generate(sc) else None


def mark_schema(rnd, tries=20):
    """Random schema centred on marks: 3-4 mark types with dense, often asymmetric exclusion,
    several textblock types that allow different subsets of them, an inline leaf."""
    for _ in range(tries):
        names = ["m%d" % i for i in range(rnd.randint(3, 4))]
        # mark groups whose names contain one another / a mark name (membership is by token)
        groups = rnd.sample(["col", "bgcol", "c", "xm1", "m"], rnd.randint(1, 3)) if rnd.random() < 0.5 else []
        marks = {}
        for nm in names:
            sp = {}
            if groups and rnd.random() < 0.6:
                sp["group"] = " ".join(rnd.sample(groups, rnd.randint(1, min(2, len(groups)))))
            r = rnd.random()
            if r < 0.55:
                sp["excludes"] = " ".join(rnd.sample(names + groups, rnd.randint(1, 2)))
            elif r < 0.65:
                sp["excludes"] = ""
            elif r < 0.72:
                sp["excludes"] = "_"
            if rnd.random() < 0.2:
                sp["inclusive"] = False
            if rnd.random() < 0.25:
                sp["attrs"] = {"k": {"default": 1}}
            marks[nm] = sp
        groups = [g_ for g_ in groups if any(g_ in m_.get("group", "").split(" ") for m_ in marks.values())]
        for m_ in marks.values():
            if "excludes" in m_ and m_["excludes"] not in ("", "_"):
                m_["excludes"] = " ".join(t_ for t_ in m_["excludes"].split(" ") if t_ in names or t_ in groups) or names[0]
        nodes = {"doc": {"content": "block+"}, "text": {"group": "inline"}, "i": {"inline": True, "group": "inline"}}
        for j in range(rnd.randint(2, 4)):
            sp = {"content": "inline*", "group": "block"}
            r = rnd.random()
            if r < 0.3:
                sp["marks"] = "_"
            elif r < 0.75:
                sp["marks"] = " ".join(rnd.sample(names + groups, rnd.randint(1, len(names) - 1)))
            elif r < 0.85:
                sp["marks"] = ""
            nodes["p%d" % j] = sp
        if rnd.random() < 0.5:
            nodes["q"] = {"content": "block+", "group": "block"}
        if rnd.random() < 0.55:
            # an inline node with content (atom, so that mark steps treat it like a leaf); its own
            # mark permissions may differ from those of the textblocks around it
            nodes["sa"] = {"inline": True, "group": "inline", "content": "text*", "atom": True}
            r_ = rnd.random()
            if r_ < 0.3:
                nodes["sa"]["marks"] = "_"
            elif r_ < 0.5:
                nodes["sa"]["marks"] = rnd.choice(names)
        sc = _mk_sch({"nodes": nodes, "marks": marks}, "random")
        if sc is not None:
            return sc
    return None


_WRAP_TEMPLATES = ["{a}", "{a}+", "{a}*", "{a} {a}+", "{a} {b}", "({a} | {b})+", "{a} {b}?", "{a}? {b}", "({a} | {b}) {a}", "{a}{{2}}", "{a} {b}*"]


def wrap_schema(rnd, tries=30):
    """Random schema centred on wrapper chains: 4-6 container types whose content is a small
    expression over containers and leaves ('x', 'x+', 'x x+', '(x|y)+', ...), so that a type may
    be the only child of one parent but not of another."""
    for _ in range(tries):
        conts = ["c%d" % i for i in range(rnd.randint(4, 6))]
        leaves = ["l0", "l1"]
        nodes = {"text": {"group": "inline"}, "l0": {}, "l1": {"attrs": {"q": {}}} if rnd.random() < 0.3 else {}}
        for k, c in enumerate(conts):
            pool = conts[k + 1:] + leaves if rnd.random() < 0.8 else conts + leaves
            a, b = rnd.choice(pool), rnd.choice(pool)
            sp = {"content": rnd.choice(_WRAP_TEMPLATES).format(a=a, b=b)}
            r_ = rnd.random()
            if r_ < 0.1:
                sp["attrs"] = {"q": {}}
            elif r_ < 0.2:
                # a required attribute declared after / before one with a default
                sp["attrs"] = {"d": {"default": 1}, "q": {}} if rnd.random() < 0.5 else {"q": {}, "d": {"default": 1}}
            elif r_ < 0.4:
                sp["attrs"] = {"q": {"default": None}}
            nodes[c] = sp
        a, b = rnd.choice(conts), rnd.choice(conts)
        nodes["doc"] = {"content": rnd.choice(["({a} | {b})+", "{a}+", "{a} {b}*", "({a} | {b} | l0)+"]).format(a=a, b=b)}
        if rnd.random() < 0.4:
            # a textblock whose inline content includes an inline node that holds block
            # containers (a footnote-like node): wrapper chains lead from inline positions to blocks
            nodes["ic"] = {"inline": True, "content": rnd.choice(["{a}+", "{a}", "({a} | {b})+"]).format(a=rnd.choice(conts), b=rnd.choice(conts))}
            nodes["tb"] = {"content": "(text | ic)*"}
            nodes["doc"] = {"content": "(" + nodes["doc"]["content"] + " | tb)+"} if rnd.random() < 0.5 else {"content": "({a} | tb)+".format(a=a)}
        order = list(nodes)
        rnd.shuffle(order)
        sc = _mk_sch({"nodes": {n: nodes[n] for n in order}}, "random")
        if sc is not None:
            return sc
    return None
