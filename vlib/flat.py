"""Reference model 1: a document as plain data and as a flat token sequence.

Everything here reads only plain attributes of library objects (`type.name`, `attrs`,
`marks`, `content.content`, `text`) and never calls a library method that a property
judges.  Plain tree ("PT"):

    text node : ("t", text, marks)
    other node: ("n", type_name, attrs_key, marks, children)      children = tuple of PT
    marks     : tuple of (mark_type_name, attrs_key)
    attrs_key : canonical JSON string of the attrs mapping

Tokens (a position is an index into the token list of the *content* of the root):

    ("O", type_name, attrs_key, marks)   node open
    ("C",)                               node close (anonymous: a joined node keeps the
                                         markup of its open token)
    ("L", type_name, attrs_key, marks)   leaf node
    ("T", unit, marks)                   one UTF-16 code unit of text
"""
import json

SP = "surrogatepass"


def akey(attrs):
    return json.dumps(attrs, sort_keys=True, ensure_ascii=True, default=repr)


def mkey(mark):
    return (mark.type.name, akey(mark.attrs))


def mskey(marks):
    return tuple(mkey(m) for m in marks)


def units(text):
    b = text.encode("utf-16-le", SP)
    return [b[i] | (b[i + 1] << 8) for i in range(0, len(b), 2)]


def units_to_str(us):
    b = bytearray()
    for u in us:
        b.append(u & 0xFF)
        b.append(u >> 8)
    return bytes(b).decode("utf-16-le", SP)


def ulen(text):
    return len(text.encode("utf-16-le", SP)) // 2


def is_text_node(node):
    return node.type.name == "text"


def pt(node):
    """Plain tree of a library node."""
    if is_text_node(node):
        return ("t", node.text, mskey(node.marks))
    return (
        "n",
        node.type.name,
        akey(node.attrs),
        mskey(node.marks),
        tuple(pt(c) for c in node.content.content),
    )


def pt_frag(fragment):
    return tuple(pt(c) for c in fragment.content)


class LeafInfo:
    """Which node types are leaves, by name (taken from the reference schema)."""

    def __init__(self, leaf_names):
        self.leaf = frozenset(leaf_names)


def toks(children, leaf):
    """Token list of a tuple of plain trees.  `leaf` = set of leaf type names."""
    out = []
    _toks(children, leaf, out)
    return out


def _toks(children, leaf, out):
    for c in children:
        if c[0] == "t":
            m = c[2]
            for u in units(c[1]):
                out.append(("T", u, m))
        elif c[1] in leaf:
            out.append(("L", c[1], c[2], c[3]))
        else:
            out.append(("O", c[1], c[2], c[3]))
            _toks(c[4], leaf, out)
            out.append(("C",))


def toks_markup(children, leaf):
    """Like toks, but close tokens repeat the markup of their open token (for C20)."""
    out = []

    def rec(ch):
        for c in ch:
            if c[0] == "t":
                for u in units(c[1]):
                    out.append(("T", u, c[2]))
            elif c[1] in leaf:
                out.append(("L", c[1], c[2], c[3]))
            else:
                out.append(("O", c[1], c[2], c[3]))
                rec(c[4])
                out.append(("C", c[1], c[2], c[3]))

    rec(children)
    return out


def size(children, leaf):
    n = 0
    for c in children:
        if c[0] == "t":
            n += ulen(c[1])
        elif c[1] in leaf:
            n += 1
        else:
            n += 2 + size(c[4], leaf)
    return n


def node_size(c, leaf):
    return size((c,), leaf)


def parse(tokens):
    """Balanced token list -> tuple of plain trees in text normal form; None if the list
    is not balanced."""
    stack = [[]]
    opens = []
    run = None  # [units, marks] pending text run
    for t in tokens:
        k = t[0]
        if k == "T":
            if run is not None and run[1] == t[2]:
                run[0].append(t[1])
            else:
                if run is not None:
                    stack[-1].append(("t", units_to_str(run[0]), run[1]))
                run = [[t[1]], t[2]]
            continue
        if run is not None:
            stack[-1].append(("t", units_to_str(run[0]), run[1]))
            run = None
        if k == "L":
            stack[-1].append(("n", t[1], t[2], t[3], ()))
        elif k == "O":
            opens.append(t)
            stack.append([])
        else:
            if not opens:
                return None
            o = opens.pop()
            ch = tuple(stack.pop())
            stack[-1].append(("n", o[1], o[2], o[3], ch))
    if run is not None:
        stack[-1].append(("t", units_to_str(run[0]), run[1]))
    if opens:
        return None
    return tuple(stack[0])


def normal_form(children):
    """True iff no empty text node and no two adjacent text nodes with equal marks, at
    every level."""
    prev = None
    for c in children:
        if c[0] == "t":
            if c[1] == "":
                return False
            if prev is not None and prev[0] == "t" and prev[2] == c[2]:
                return False
        else:
            if not normal_form(c[4]):
                return False
        prev = c
    return True


def open_stack(tokens, pos):
    """Indices of the open tokens enclosing position `pos` (outermost first)."""
    st = []
    for i in range(pos):
        k = tokens[i][0]
        if k == "O":
            st.append(i)
        elif k == "C":
            st.pop()
    return st


def depth_profile(tokens):
    """depth[i] for every position 0..len(tokens): number of enclosing opens."""
    d = 0
    out = [0]
    for t in tokens:
        if t[0] == "O":
            d += 1
        elif t[0] == "C":
            d -= 1
        out.append(d)
    return out


def min_depth_between(prof, a, b):
    return min(prof[a : b + 1])


def leafseq(tokens):
    return [t for t in tokens if t[0] in ("T", "L")]


def text_units(tokens):
    return [t[1] for t in tokens if t[0] == "T"]


def cut_children(children, a, b, leaf):
    """Plain-tree version of 'content between a and b with partial nodes kept open'
    (nothing at all for an empty range)."""
    out = []
    if b <= a:
        return ()
    pos = 0
    for c in children:
        if pos >= b:
            break
        if c[0] == "t":
            us = units(c[1])
            end = pos + len(us)
            if end > a:
                lo, hi = max(0, a - pos), min(len(us), b - pos)
                if hi > lo:
                    out.append(("t", units_to_str(us[lo:hi]), c[2]))
        elif c[1] in leaf:
            end = pos + 1
            if end > a:
                out.append(c)
        else:
            sz = size(c[4], leaf)
            end = pos + 2 + sz
            if end > a:
                if pos >= a and end <= b:
                    out.append(c)
                else:
                    inner = cut_children(
                        c[4], max(0, a - pos - 1), min(sz, b - pos - 1), leaf
                    )
                    out.append(("n", c[1], c[2], c[3], inner))
        pos = end
    return tuple(out)


def ref_slice(children, a, b, leaf):
    """(content, open_start, open_end) of the slice a..b of a root whose content is
    `children`, relative to the deepest node containing both ends."""
    tk = toks(children, leaf)
    prof = depth_profile(tk)
    shared = min_depth_between(prof, a, b)
    # descend to the shared ancestor
    st = open_stack(tk, a)[:shared]
    cur = children
    base = 0
    for oi in st:
        # find child of cur starting at token index oi
        p = base
        for c in cur:
            if p == oi:
                cur = c[4]
                base = oi + 1
                break
            p += node_size(c, leaf)
        else:  # pragma: no cover
            raise AssertionError("ref_slice: lost track")
    content = cut_children(cur, a - base, b - base, leaf)
    return content, prof[a] - shared, prof[b] - shared


# ---------------------------------------------------------------- materialise


def build_marks(schema, marks):
    """Marks of a generated document.  A mark whose attributes all equal the type's defaults is
    created the way `schema.mark(name)` does it - without attrs, which yields the type's shared
    instance - so that documents hold that instance while steps and decoded JSON bring equal
    marks that are separate objects."""
    out = []
    for n, a in marks:
        mt = schema.marks[n]
        at = json.loads(a)
        inst = getattr(mt, "instance", None)
        out.append(mt.create() if inst is not None and inst.attrs == at else mt.create(at))
    return out


def build(schema, c):
    """Plain tree -> library node, through the unchecked public constructors."""
    if c[0] == "t":
        return schema.text(c[1], build_marks(schema, c[2]))
    from prosemirror.model import Fragment

    kids = [build(schema, k) for k in c[4]]
    return schema.nodes[c[1]].create(
        json.loads(c[2]), Fragment(kids) if kids else None, build_marks(schema, c[3])
    )


def build_fragment(schema, children):
    from prosemirror.model import Fragment

    kids = [build(schema, k) for k in children]
    return Fragment(kids) if kids else Fragment.empty
