"""C13 - adding and removing marks over a range has exactly the documented effect."""
import json
import re

from .. import flat, gen, gensteps, schemas
from ..flat import akey
from ..refschema import EMPTY, deriv, nullable
from ..monitors import step as stepmon
from . import opwork
from .common import describe_doc, pick_schema

ID = "C13"
LEVEL = "exploration"
RULE = (
    "case = one valid document (catalogue schemas, random well-founded schemas with arbitrary mark "
    "exclusion relations, mark-restricted parents, astral text); ~40 operations each on a fresh "
    "Transform: add_mark, remove_mark (mark / mark type / all), add_node_mark, remove_node_mark (mark / "
    "type), set_node_attribute, set_doc_attribute, set_block_type, set_node_markup with ranges that "
    "split text nodes and cross block boundaries. Oracle on the flat token lists: structure and text "
    "unchanged for mark/attr ops; inside the range every inline token whose parent allows the mark "
    "has exactly refAdd(mark, old marks) / no matching mark, everything else identical; node-level ops "
    "change exactly the addressed node; retyped blocks keep their children as the documented "
    "filtering of the old ones; a set_block_type that RAISES is a violation (block-type-refused) when the new "
    "type accepts the children of every textblock in reach as they stand (nothing to drop, no filler). distinct = (schema, op, range shape, exclusion effect, outcome); "
    "trivial = empty range."
)
ASSUMPTIONS = [
    "inline nodes are leaves (random schemas are generated that way)",
    "set_node_markup / set_block_type targets are generated with valid attrs; a target type that cannot hold the node's content is expected to be refused",
]
OPS = ["add_mark", "add_mark", "remove_mark", "remove_mark", "add_node_mark", "remove_node_mark", "set_node_attribute",
       "set_doc_attribute", "set_block_type", "set_node_markup"]


def cases(tier):
    return 10000 if tier == "quick" else 160000


def floors(tier):
    f = {"ops": 10000, "add_mark_changed_tokens": 2000, "remove_mark_changed_tokens": 1000, "distinct_nontrivial": 150}
    for o in set(OPS):
        f["op_returned:" + o] = 200
    return f


def parents_of(tk, root_type):
    """For every token index the type name of the enclosing node."""
    out = []
    st = [root_type]
    for t in tk:
        if t[0] == "C":
            st.pop()
            out.append(st[-1])
        else:
            out.append(st[-1])
            if t[0] == "O":
                st.append(t[1])
    return out


def strip_marks(t):
    if t[0] == "T":
        return ("T", t[1])
    if t[0] == "C":
        return t
    return (t[0], t[1], t[2])


def marks_of(t):
    return t[2] if t[0] == "T" else (t[3] if t[0] in ("L", "O") else ())


def with_marks(t, ms):
    if t[0] == "T":
        return ("T", t[1], ms)
    return (t[0], t[1], t[2], ms)


NL = re.compile(r"\r?\n|\r")


def inline_target(rs, t):
    """Is this token an inline node that mark steps act on: a text unit, an inline leaf, or
    the open token of an inline atom with content?"""
    if t[0] == "T":
        return True
    if t[0] == "L":
        return rs.nodes[t[1]].inline
    if t[0] == "O":
        nt = rs.nodes[t[1]]
        return nt.inline and bool(nt.spec.get("atom"))
    return False


def case(ctx, rnd, i):
    from prosemirror.transform import Transform

    r = rnd.random()
    if r < 0.5:
        sch = schemas.get(rnd.choice(schemas.ids()))
    else:
        sch = schemas.mark_schema(rnd) if r < 0.8 else schemas.random_schema(rnd)
        if sch is None:
            ctx.count("schema_gen_failed")
            return
    stepmon.register(sch)
    S, rs, leaf = sch.schema, sch.ref, sch.leaf
    g = gen.DocGen(sch, rnd, wide=0.2, mark_p=rnd.choice([0.3, 0.5, 0.7]))
    d, p = g.doc(rnd.choice([16, 24, 36, 50, 60]))
    tk = flat.toks(p[4], leaf)
    n = len(tk)
    par = parents_of(tk, rs.top)
    starts = gensteps.node_starts(tk)
    base = describe_doc(sch, d)
    sid = sch.cls if sch.cls == "random" else sch.id
    if i % 20 == 0:
        ctx.sample({"schema": sch.id, "doc": str(d)[:200]})
    marky = getattr(sch, "spec", None) is not None and all(k.startswith(("p", "q", "doc", "text", "i")) for k in sch.spec["nodes"]) and "p0" in sch.spec["nodes"]
    has_box = any(t[0] == "O" and rs.nodes[t[1]].inline for t in tk)
    if has_box:
        ctx.count("docs_with_inline_container")
    for _ in range(40):
        op = rnd.choice(OPS) if not marky or rnd.random() < 0.3 else rnd.choice(["add_mark", "add_mark", "remove_mark"])
        a = rnd.randint(0, n)
        b = min(n, a + rnd.choice([0, 1, 2, 3, 5, 8, 13, n]))
        if marky and rnd.random() < 0.4:
            a, b = rnd.randint(0, min(3, n)), n
        if has_box and op == "set_block_type":
            # inline nodes with content: upstream's set_block_type treats them in ways the simple token
            # law does not describe (add_mark is judged on text and leaves only, see below)
            op = "remove_mark"
        tr = Transform(d)
        ctx.count("ops")
        ctx.ev()
        args = {}
        exp = None
        call = None
        if op == "add_mark":
            m = gensteps.random_mark(sch, rnd, g)
            if m is None:
                continue
            mk = flat.mkey(m)
            args = {"from": a, "to": b, "mark": m.to_json()}
            call = lambda: tr.add_mark(a, b, m)  # noqa: E731
            exp = []
            changed = 0
            for idx, t in enumerate(tk):
                if inline_target(rs, t) and a <= idx < b and rs.allows_mark(par[idx], mk[0]):
                    nm = rs.ref_add(mk, marks_of(t))
                    changed += nm != marks_of(t)
                    exp.append(with_marks(t, nm))
                else:
                    exp.append(t)
            ctx.count("add_mark_changed_tokens", changed)
            shape = ("add", "excl" if any(rs.excludes(mk[0], x[0]) for t in tk[a:b] for x in marks_of(t)) else "plain", changed > 0)
        elif op == "remove_mark":
            m = gensteps.random_mark(sch, rnd, g)
            mode = rnd.choice(["mark", "type", "all"]) if m is not None else "all"
            # prefer marks that occur
            present = [x for t in tk[a:b] if t[0] in ("T", "L", "O") for x in marks_of(t)]
            if present and rnd.random() < 0.7:
                x = rnd.choice(present)
                m = S.marks[x[0]].create(json.loads(x[1]))
            if mode == "mark":
                mk = flat.mkey(m)
                args = {"from": a, "to": b, "mark": m.to_json()}
                call = lambda: tr.remove_mark(a, b, m)  # noqa: E731
                keep = lambda x: x != mk  # noqa: E731
            elif mode == "type":
                mt = m.type
                args = {"from": a, "to": b, "mark_type": mt.name}
                call = lambda: tr.remove_mark(a, b, mt)  # noqa: E731
                keep = lambda x: x[0] != mt.name  # noqa: E731
            else:
                args = {"from": a, "to": b, "mark": None}
                call = lambda: tr.remove_mark(a, b, None)  # noqa: E731
                keep = lambda x: False  # noqa: E731
            exp = []
            changed = 0
            for idx, t in enumerate(tk):
                if inline_target(rs, t) and a <= idx < b:
                    nm = tuple(x for x in marks_of(t) if keep(x))
                    changed += nm != marks_of(t)
                    exp.append(with_marks(t, nm))
                else:
                    exp.append(t)
            ctx.count("remove_mark_changed_tokens", changed)
            shape = ("remove", mode, changed > 0)
            if has_box:
                exp = None
                box_keep = keep
                shape = ("remove-box", mode)
        elif op in ("add_node_mark", "remove_node_mark"):
            m = gensteps.random_mark(sch, rnd, g)
            if m is None or not starts:
                continue
            pos = rnd.choice(starts)
            cur = marks_of(tk[pos])
            if op == "remove_node_mark" and cur and rnd.random() < 0.7:
                x = rnd.choice(cur)
                m = S.marks[x[0]].create(json.loads(x[1]))
            mk = flat.mkey(m)
            exp = list(tk)
            if op == "add_node_mark":
                args = {"pos": pos, "mark": m.to_json()}
                call = lambda: tr.add_node_mark(pos, m)  # noqa: E731
                exp[pos] = with_marks(tk[pos], rs.ref_add(mk, cur))
                shape = ("add_node", exp[pos] != tk[pos])
            elif rnd.random() < 0.5:
                mt = m.type
                args = {"pos": pos, "mark_type": mt.name}
                call = lambda: tr.remove_node_mark(pos, mt)  # noqa: E731
                first = next((x for x in cur if x[0] == mt.name), None)
                exp[pos] = with_marks(tk[pos], tuple(x for x in cur if x != first) if first else cur)
                # removing by type removes the first mark of that type only (documented: "if it is a mark type, the first mark of that type")
                shape = ("remove_node_type", first is not None)
            else:
                args = {"pos": pos, "mark": m.to_json()}
                call = lambda: tr.remove_node_mark(pos, m)  # noqa: E731
                exp[pos] = with_marks(tk[pos], tuple(x for x in cur if x != mk))
                shape = ("remove_node", mk in cur)
        elif op == "set_node_attribute":
            cands = [s_ for s_ in starts if rs.nodes[tk[s_][1]].attrs]
            if not cands:
                continue
            pos = rnd.choice(cands)
            tn = tk[pos][1]
            an = rnd.choice(list(rs.nodes[tn].attrs))
            val = g.attr_value(tn, an)
            if val is None and not rs.nodes[tn].attrs[an][0]:
                val = "x"
            args = {"pos": pos, "attr": an, "value": val}
            call = lambda: tr.set_node_attribute(pos, an, val)  # noqa: E731
            at = json.loads(tk[pos][2])
            at[an] = val if val is not None else rs.nodes[tn].attrs[an][1]
            exp = list(tk)
            exp[pos] = (tk[pos][0], tn, akey(at), tk[pos][3])
            shape = ("attr", exp[pos] != tk[pos])
        elif op == "set_doc_attribute":
            decl = list(rs.nodes[rs.top].attrs)
            if not decl:
                continue
            an = rnd.choice(decl)
            val = g.attr_value(rs.top, an)
            args = {"attr": an, "value": val}
            call = lambda: tr.set_doc_attribute(an, val)  # noqa: E731
            exp = list(tk)
            shape = ("docattr",)
        elif op == "set_block_type":
            tbs = [x for x, t in rs.nodes.items() if t.inline_content and not t.inline]
            if not tbs:
                continue
            tn = rnd.choice(tbs)
            at = g.attrs(rs.nodes[tn].attrs, tn)
            args = {"from": a, "to": b, "type": tn, "attrs": at}
            call = lambda: tr.set_block_type(a, b, S.nodes[tn], at)  # noqa: E731
            shape = ("block_type", tn)
        else:
            if not starts:
                continue
            pos = rnd.choice(starts)
            cur_t = tk[pos][1]
            tn = cur_t if rnd.random() < 0.5 else rnd.choice([x for x, t in rs.nodes.items() if not t.is_text and t.is_leaf == rs.nodes[cur_t].is_leaf
                                                               and t.inline == rs.nodes[cur_t].inline] or [cur_t])
            at = g.attrs(rs.nodes[tn].attrs, tn, 0.6)
            ms = None
            if rnd.random() < 0.3:
                ms = flat.build_marks(S, g.marks_for(par[pos], 0.5)) or None
            args = {"pos": pos, "type": tn, "attrs": at, "marks": [x.to_json() for x in ms] if ms else None}
            call = lambda: tr.set_node_markup(pos, S.nodes[tn], at, ms)  # noqa: E731
            shape = ("markup", tn == cur_t, ms is not None)
        det = {**base, "op": op, "args": args}
        mech = {"op": op}
        try:
            opwork.watch().run(opwork.line_budget(n, 40), call)
        except ValueError as e:
            if isinstance(e, UnicodeError):
                ctx.violation("raised-internal", "%s raised %s: %s" % (op, type(e).__name__, e), det, {**mech, "exc": type(e).__name__})
            ctx.count("op_rejected:" + op)
            if op == "set_block_type":
                # a refusal is legitimate only if some textblock in reach cannot simply be emptied of what the
                # new type cannot hold (it would need filler content, whose search may fail); where every
                # such block keeps a prefix-closed, complete child sequence the documented result exists
                why = _retype_needs_nothing(sch, p, a, b, args["type"])
                if why is True:
                    ctx.violation("block-type-refused", "set_block_type(%d,%d,%s) raised %s: %s although the new type accepts the children of every "
                                  "textblock in the range as they stand (only marks / newlines to clear)" % (a, b, args["type"], type(e).__name__, e), det, {**mech, "exc": type(e).__name__})
                    continue
                ctx.count("block_type_refusal_not_judged:" + why)
            ctx.cover([sid, op, "rejected", str(shape)])
            continue
        except BaseException as e:
            ctx.violation("raised-internal", "%s raised %s: %s" % (op, type(e).__name__, e), det, {**mech, "exc": type(e).__name__})
            continue
        ctx.count("op_returned:" + op)
        newp = flat.pt(tr.doc)
        why = rs.why_invalid(newp)
        if why is not None:
            ctx.violation("invalid-result", "%s returned an invalid document (%s): %s" % (op, why, str(tr.doc)[:300]), det, {**mech, "why": why.split(":")[-1].strip().split(" ")[0]})
            continue
        new = flat.toks(newp[4], leaf)
        if op == "set_doc_attribute":
            at = json.loads(p[2])
            at[args["attr"]] = args["value"] if args["value"] is not None else rs.nodes[rs.top].attrs[args["attr"]][1]
            if newp[2] != akey(at) or newp[3] != p[3] or new != tk:
                ctx.violation("doc-attr", "set_doc_attribute(%s=%r): doc attrs %s, expected %s; content %s" % (args["attr"], args["value"], newp[2], akey(at), "unchanged" if new == tk else "changed"), det, mech)
            else:
                ctx.cover([sid, op, shape])
            continue
        if exp is not None:
            if newp[2] != p[2] or newp[3] != p[3]:
                ctx.violation("doc-markup-changed", "%s changed the document node's own attrs/marks" % op, det, mech)
                continue
            if [strip_marks(t) for t in new] != [strip_marks(t) for t in (exp if op != "set_node_attribute" else tk)] and op != "set_node_attribute":
                ctx.violation("structure-changed", "%s changed text or structure: %s" % (op, str(tr.doc)[:300]), det, mech)
                continue
            if has_box and op == "add_mark":
                # the mark on the inline container node itself depends on how much of it the range
                # covers (upstream cuts it); judged: text and leaves, by their direct parent
                unbox = lambda t: (t[0], t[1], t[2], ()) if t[0] == "O" and rs.nodes[t[1]].inline else t  # noqa: E731
                new, exp = [unbox(t) for t in new], [unbox(t) for t in exp]
                ctx.count("add_mark_on_inline_container_docs")
            if new != exp:
                k = next((j for j, (x, y) in enumerate(zip(new, exp)) if x != y), min(len(new), len(exp)))
                inside = a <= k < b if op in ("add_mark", "remove_mark") else None
                extra = {}
                if has_box and op == "add_mark" and k < len(new) and k < len(exp) and k < len(par):
                    lost = set(marks_of(exp[k])) - set(marks_of(new[k]))
                    gained = set(marks_of(new[k])) - set(marks_of(exp[k]))
                    extra = {"token_directly_inside_inline_container": bool(rs.nodes[par[k]].inline),
                             "only_lost_marks_that_the_added_mark_excludes": bool(lost) and not gained and all(rs.excludes(mk[0], x[0]) for x in lost)}
                ctx.violation("marks-effect", "%s: token %d is %r, documented effect gives %r (old %r)" % (op, k, new[k] if k < len(new) else None, exp[k] if k < len(exp) else None, tk[k] if k < len(tk) else None),
                              det, {**mech, "inside_range": inside, "old_marks": len(marks_of(tk[k])) if k < len(tk) else None, **extra})
                continue
            ctx.cover([sid, op, shape, min(b - a, 3) if op in ("add_mark", "remove_mark") else None], nontrivial=not (op in ("add_mark", "remove_mark") and a == b))
            continue
        if has_box and op == "remove_mark":
            bad_tok = None
            if [strip_marks(t) for t in new] != [strip_marks(t) for t in tk]:
                ctx.violation("structure-changed", "remove_mark changed text or structure", det, mech)
                continue
            for idx, t in enumerate(new):
                inl = t[0] == "T" or (t[0] in ("L", "O") and rs.nodes[t[1]].inline)
                if a <= idx < b and inl and any(not box_keep(x) for x in marks_of(t)):
                    bad_tok = (idx, t)
                    break
                if not (a <= idx < b) and t != tk[idx]:
                    bad_tok = (idx, t)
                    break
            if bad_tok:
                ctx.violation("marks-effect", "remove_mark (document with inline nodes that have content): token %d is %r after the removal (old %r)"
                              % (bad_tok[0], bad_tok[1], tk[bad_tok[0]]), det, {**mech, "inline_container": True})
            else:
                ctx.count("remove_mark_on_inline_container_docs")
                ctx.cover([sid, "remove-box", shape])
            continue
        if op == "set_block_type":
            _judge_block_type(ctx, sch, d, p, tk, tr.doc, newp, a, b, args, det, mech, sid, shape)
        else:
            _judge_markup(ctx, sch, p, tk, newp, new, args, det, mech, sid, shape, bool(tr.steps))


def _retype_needs_nothing(sch, p, a, b, tn):
    """True if every textblock that set_block_type(a, b, tn) may touch holds a child sequence that tn accepts
    as it stands (nothing to drop, no filler needed: only marks are stripped and newlines replaced);
    otherwise a short reason."""
    rs = sch.ref
    T = rs.nodes[tn]
    seen = [0]

    def walk(o, pos):
        if o[0] == "t":
            return True
        ot = rs.nodes[o[1]]
        size = flat.node_size(o, sch.leaf)
        if ot.inline_content and not ot.inline:
            if not (pos <= b and pos + size >= a):
                return True
            seen[0] += 1
            D = T.regex
            for c in o[4]:
                d2 = deriv(D, "text" if c[0] == "t" else c[1])
                if d2 is EMPTY:
                    # dropping a child goes through an intermediate document that must be valid for the OLD
                    # type too (upstream applies the deletions before the retyping step): may legitimately fail
                    return "drops_children"
                D = d2
            return True if nullable(D) else "needs_fill"
        if ot.inline:
            return "inline_container"
        q = pos + 1
        for x in o[4]:
            r = walk(x, q)
            if r is not True:
                return r
            q += flat.node_size(x, sch.leaf)
        return True

    r = walk(p, -1)
    if r is True and not seen[0]:
        return "no_textblock_in_reach"
    return r


def _judge_markup(ctx, sch, p, tk, newp, new, args, det, mech, sid, shape, stepped):
    rs = sch.ref
    pos = args["pos"]
    tn = args["type"]
    at = akey(rs.attrs_json(tn, args["attrs"]))
    old = tk[pos]
    if old[0] == "L":
        # leaf: goes through the fitter; demand only "that node replaced or nothing happened"
        if not stepped:
            ctx.count("markup_leaf_noop")
            return
        if tn != old[1]:
            # a leaf is retyped through the fitter (replace_with): where the new type is not
            # allowed in place the outcome is the fitter's business (C11); only validity
            # (checked above) is demanded here
            ctx.count("markup_leaf_retyped_not_judged_exactly")
            return
        ms = tuple((m["type"], akey(m["attrs"])) for m in args["marks"]) if args["marks"] else old[3]
        ms = tuple(sorted(ms, key=lambda x: rs.marks[x[0]].rank))
        par = parents_of(tk, rs.top)[pos]
        ms = tuple(x for x in ms if rs.allows_mark(par, x[0]))  # the fitter strips marks the parent forbids
        exp = list(tk)
        exp[pos] = ("L", tn, at, ms)
        if new != exp:
            ctx.violation("markup-effect", "set_node_markup on a leaf: result differs from replacing just that node", det, {**mech, "leaf": True})
        else:
            ctx.cover([sid, "set_node_markup", "leaf", shape])
        return
    ms = tuple((m["type"], akey(m["attrs"])) for m in args["marks"]) if args["marks"] else old[3]
    # Mark.set_from sorts the given marks by rank
    ms = tuple(sorted(ms, key=lambda x: rs.marks[x[0]].rank))
    exp = list(tk)
    exp[pos] = ("O", tn, at, ms)
    if new != exp:
        k = next((j for j, (x, y) in enumerate(zip(new, exp)) if x != y), min(len(new), len(exp)))
        ctx.violation("markup-effect", "set_node_markup: token %d is %r, expected %r" % (k, new[k] if k < len(new) else None, exp[k] if k < len(exp) else None), det, {**mech, "leaf": False})
    else:
        ctx.cover([sid, "set_node_markup", "node", shape])


def _judge_block_type(ctx, sch, d, p, tk, newdoc, newp, a, b, args, det, mech, sid, shape):
    rs = sch.ref
    tn = args["type"]
    at = akey(rs.attrs_json(tn, args["attrs"]))
    T = rs.nodes[tn]
    changed = [0]

    def expect_children(old_children):
        D = T.regex
        kept = []
        for c in old_children:
            cn = "text" if c[0] == "t" else c[1]
            d2 = deriv(D, cn)
            if d2 is EMPTY:
                continue
            D = d2
            ms = tuple(x for x in (c[2] if c[0] == "t" else c[3]) if rs.allows_mark(tn, x[0]))
            if c[0] == "t":
                txt = c[1] if T.code else NL.sub(" ", c[1])
                kept.append(("t", txt, ms))
            else:
                kept.append(("n", c[1], c[2], ms, c[4]))
        return gen.merge_text(kept), not nullable(D)

    def walk(o, nw, pos, path):
        """o, nw: plain trees of corresponding nodes; pos = position before o."""
        if o[0] == "t" or nw[0] == "t":
            return None if o == nw else "%s: inline content changed" % path
        ot = rs.nodes[o[1]]
        size = flat.node_size(o, sch.leaf)
        if ot.inline_content and not ot.inline:
            # a textblock: may be retyped if it overlaps the range
            if o == nw:
                return None
            overlaps = pos < b and pos + size > a or (a == b and pos < a < pos + size) or (a == b and pos <= a <= pos + size)
            if not overlaps:
                return "%s: textblock outside the range changed" % path
            if nw[1] != tn or nw[2] != at or nw[3] != o[3]:
                return "%s: retyped block has markup (%s,%s,%s), expected (%s,%s,%s)" % (path, nw[1], nw[2], nw[3], tn, at, o[3])
            kept, need_fill = expect_children(o[4])
            got = nw[4]
            if got[:len(kept)] != kept:
                return "%s: children of the retyped block are %r, documented filtering gives %r" % (path, got, kept)
            for extra in got[len(kept):]:
                if extra[0] == "t" or not rs.generatable(extra[1]):
                    return "%s: extra child %r is not a generatable filler" % (path, extra)
            changed[0] += 1
            return None
        if (o[1], o[2], o[3]) != (nw[1], nw[2], nw[3]) or len(o[4]) != len(nw[4]):
            return "%s: structure above the textblocks changed" % path
        q = pos + 1
        for j, (x, y) in enumerate(zip(o[4], nw[4])):
            r = walk(x, y, q, "%s/%s[%d]" % (path, o[1], j))
            if r:
                return r
            q += flat.node_size(x, sch.leaf)
        return None

    r = walk(p, newp, -1, "")
    if r:
        ctx.violation("block-type-effect", "set_block_type(%d,%d,%s): %s" % (a, b, tn, r), det, mech)
    else:
        ctx.count("blocks_retyped", changed[0])
        ctx.cover([sid, "set_block_type", shape, min(changed[0], 3)], nontrivial=changed[0] > 0)
