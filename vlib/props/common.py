"""Helpers shared by the property drivers."""
from .. import flat, gen, schemas


def pick_schema(rnd, random_share=0.25, ids=None, weights=None):
    """A catalogue schema, or (with probability random_share) a random well-founded one."""
    if random_share and rnd.random() < random_share:
        if rnd.random() < 0.2:
            # mark-centred schema: textblocks with different mark permissions and (often) an
            # inline node that has content of its own
            return schemas.mark_schema(rnd)
        return schemas.random_schema(rnd)
    ids = ids or schemas.ids()
    return schemas.get(rnd.choice(ids))


def other_docs(sch, rnd, k, **kw):
    g = gen.DocGen(sch, rnd, **kw)
    return [g.doc() for _ in range(k)]


def describe_doc(sch, d):
    out = {"schema": sch.id, "doc": str(d)[:600]}
    try:
        out["doc_json"] = d.to_json()
    except Exception as e:  # pragma: no cover
        out["doc_json"] = "to_json raised %r" % (e,)
    if sch.cls == "random":
        out["schema_spec"] = _plain_spec(sch.spec)
    return out


def _plain_spec(spec):
    def clean(v):
        if isinstance(v, dict):
            return {k: clean(x) for k, x in v.items() if not callable(x)}
        return v

    return clean(spec)


def exc_class(e):
    """'reported' for the ValueError family, 'internal' otherwise."""
    from ..budget import StepBudgetExceeded

    if isinstance(e, StepBudgetExceeded):
        return "internal"
    if isinstance(e, ValueError) and not isinstance(e, UnicodeError):
        return "reported"
    return "internal"


def valid_pt(sch, node):
    return sch.ref.why_invalid(flat.pt(node))
