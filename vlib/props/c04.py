"""C04 - every recorded change can be undone exactly and replayed exactly."""
import json

from .. import flat, gen, genops, gensteps, refmap, schemas
from ..monitors import step as stepmon
from . import opwork
from .common import describe_doc, other_docs, pick_schema

ID = "C04"
LEVEL = "exploration"
RULE = (
    "part H (bundled schemas + their variants): a Transform driven by 1-12 random operations of all "
    "kinds with arbitrary in-range arguments, rejected operations left in; after every operation "
    "(also a rejected one) steps/docs/maps stay aligned one-to-one, earlier entries keep identity, "
    "docs[i] + steps[i] reproduces docs[i+1], maps[i] is steps[i].get_map(); at the end the steps are "
    "replayed from `before` (directly and through JSON) and undone by the inverted steps in reverse; "
    "every inverted step's map is checked to be the inverse map at every position. part S (every "
    "schema incl. random): single ReplaceStep (any slice, any range), API ReplaceAroundStep, "
    "AttrStep/DocAttrStep on declared attributes, Add/RemoveNodeMarkStep that apply are undone by "
    "invert(doc). distinct = (schema, sequence of (op, outcome) kinds / step class, number of steps); "
    "trivial = history with fewer than 2 applied steps and no rejected operation."
)
ASSUMPTIONS = [
    "attribute steps name declared attributes; primitive Add/RemoveMarkStep undo is claimed only through Transform.add_mark/remove_mark",
    "a history whose intermediate document is invalid by the reference is dropped (the producing step is C01's business)",
]
WALL = {"quick": 900, "thorough": 7200}


def cases(tier):
    return 9000 if tier == "quick" else 200000


def floors(tier):
    return {"histories": 500, "history_steps": 2000, "undo_checked_steps": 2000, "single_steps_undone": 3000,
            "rejected_ops_in_histories": 200, "distinct_nontrivial": 150}


def eq_docs(a, b):
    return a.eq(b) and b.eq(a) and flat.pt(a) == flat.pt(b)


def check_bookkeeping(ctx, tr, d0, snap, bad):
    """After every operation.  snap = identity snapshot of the previous state."""
    n = len(tr.steps)
    if not (len(tr.docs) == n and len(tr.mapping.maps) == n):
        bad("alignment", "steps/docs/maps lengths are %d/%d/%d" % (n, len(tr.docs), len(tr.mapping.maps)))
        return False
    if tr.before is not (tr.docs[0] if n else tr.doc) or (n and tr.docs[0] is not d0) or (not n and tr.doc is not d0):
        bad("before", "Transform.before is not the starting document")
        return False
    ps, pd, pm = snap
    if [id(x) for x in tr.steps[:len(ps)]] != ps or [id(x) for x in tr.docs[:len(pd)]] != pd or [id(x) for x in tr.mapping.maps[:len(pm)]] != pm:
        bad("prefix-identity", "earlier steps/docs/maps entries were replaced")
        return False
    if len(tr.steps) < len(ps):
        bad("prefix-identity", "the history shrank")
        return False
    for i in range(len(ps), n):
        nxt = tr.docs[i + 1] if i + 1 < n else tr.doc
        try:
            r = tr.steps[i].apply(tr.docs[i])
        except Exception as e:
            bad("reapply", "steps[%d].apply(docs[%d]) raised %s: %s" % (i, i, type(e).__name__, e), exc=type(e).__name__)
            return False
        if r.doc is None or not eq_docs(r.doc, nxt):
            bad("reapply", "steps[%d].apply(docs[%d]) does not give docs[%d]" % (i, i, i + 1))
            return False
        m = tr.steps[i].get_map()
        if list(m.ranges) != list(tr.mapping.maps[i].ranges) or bool(m.inverted) != bool(tr.mapping.maps[i].inverted):
            bad("map-alignment", "mapping.maps[%d] = %r is not steps[%d].get_map() = %r" % (i, tr.mapping.maps[i].ranges, i, m.ranges))
            return False
    if tr.mapping.from_ != 0 or tr.mapping.to != n:
        bad("map-alignment", "mapping.from_/to = %r/%r with %d maps" % (tr.mapping.from_, tr.mapping.to, n))
        return False
    return True


def inverse_map_law(ctx, step, doc, inv, newdoc, bad):
    """invert(doc).get_map() maps every position of the new doc like get_map().invert()."""
    m = step.get_map()
    im = inv.get_map()
    a = refmap.normal_ranges(list(m.ranges), not bool(m.inverted))
    b = refmap.normal_ranges(list(im.ranges), bool(im.inverted))
    size = newdoc.content.size
    for pos in range(size + 1):
        for assoc in (-1, 1):
            x, y = refmap.map_pos(a, pos, assoc).pos, refmap.map_pos(b, pos, assoc).pos
            if x != y:
                bad("inverse-map", "%s: invert(doc).get_map() %r maps %d (assoc %d) to %d, get_map().invert() %r to %d" % (
                    type(step).__name__, list(im.ranges), pos, assoc, y, list(m.ranges), x), step=type(step).__name__)
                return False
            if im.map(pos, assoc) != y:
                bad("inverse-map", "inverted step's map disagrees with its own ranges at %d" % pos, step=type(step).__name__)
                return False
    return True


MARK_KINDS = ["add_mark", "add_mark", "add_mark", "remove_mark", "remove_mark", "add_node_mark", "remove_node_mark", "delete", "insert", "split",
              "set_block_type", "replace"]


def history(ctx, rnd, marky=False):
    from prosemirror.transform import Step, Transform

    if marky:
        # densely marked documents (adjacent inline nodes with same-type marks of different
        # attrs), operations dominated by mark changes over wide ranges
        st = opwork.setup_history(ctx, rnd, ids=list(schemas.TOTALITY), random_share=0.0, nslices=3, wide=0.05, mark_p=0.65,
                                  budget=rnd.choice([24, 36, 50]))
    else:
        st = opwork.setup_history(ctx, rnd, ids=list(schemas.TOTALITY), random_share=0.0, nslices=4, wide=0.1, nested_attrs=rnd.random() < 0.5)
    if st is None:
        return
    sch, g, d, p, slices = st
    rs = sch.ref
    base = describe_doc(sch, d)
    tr = Transform(d)
    log = []

    def bad(oracle, msg, **mech):
        ctx.violation(oracle, msg, {**base, "ops": log, "steps": [_sj(s) for s in tr.steps]}, {"ops": [o["op"] for o in log][-1:], **mech})

    ctx.count("histories")
    nops = rnd.randint(1, 12)
    snap = ([], [], [])
    ok = True
    for _ in range(nops):
        if rs.why_invalid(flat.pt(tr.doc)) is not None:
            ctx.count("history_dropped_invalid_intermediate")
            return
        op = genops.gen_op(sch, rnd, g, tr.doc, slices, MARK_KINDS if marky else None)
        out, exc = opwork.run_op(tr, op, tr.doc.content.size, 40)
        log.append({**op.describe(), "outcome": out, "exc": repr(exc)[:120] if exc else None})
        ctx.count("history_ops")
        if out != "ok":
            ctx.count("rejected_ops_in_histories")
        if out == "budget":
            return
        ctx.ev()
        if not check_bookkeeping(ctx, tr, d, snap, bad):
            return
        snap = ([id(x) for x in tr.steps], [id(x) for x in tr.docs], [id(x) for x in tr.mapping.maps])
    n = len(tr.steps)
    ctx.count("history_steps", n)
    if rs.why_invalid(flat.pt(tr.doc)) is not None:
        ctx.count("history_dropped_invalid_intermediate")
        return
    # ---- replay (direct and through JSON)
    for mode in ("direct", "json"):
        cur = tr.before
        for i, s in enumerate(tr.steps):
            try:
                s2 = s if mode == "direct" else Step.from_json(sch.schema, json.loads(json.dumps(s.to_json())))
                r = s2.apply(cur)
            except Exception as e:
                bad("replay", "replay (%s) of step %d raised %s: %s" % (mode, i, type(e).__name__, e), mode=mode, exc=type(e).__name__)
                return
            if r.doc is None:
                bad("replay", "replay (%s) of step %d failed: %s" % (mode, i, r.failed), mode=mode)
                return
            cur = r.doc
        if not eq_docs(cur, tr.doc):
            bad("replay", "replaying the recorded steps (%s) from `before` gives %s, the transform's doc is %s" % (mode, str(cur)[:200], str(tr.doc)[:200]), mode=mode)
            return
    # ---- undo
    cur = tr.doc
    for i in range(n - 1, -1, -1):
        s = tr.steps[i]
        kind = type(s).__name__
        try:
            inv = s.invert(tr.docs[i])
            r = inv.apply(cur)
        except Exception as e:
            bad("undo", "inverting/applying step %d (%s) raised %s: %s" % (i, kind, type(e).__name__, e), step=kind, exc=type(e).__name__)
            return
        if r.doc is None:
            extra = _around_mech(s) if kind == "ReplaceAroundStep" else {}
            bad("undo", "the inverse of step %d (%s) failed: %s" % (i, kind, r.failed), step=kind, failed=True, **extra)
            return
        if not eq_docs(r.doc, tr.docs[i]):
            extra = _node_mark_mech(s, tr.docs[i]) if kind == "AddNodeMarkStep" else {}
            extra["differs_only_in_same_type_mark_order"] = _order_only(r.doc, tr.docs[i])
            bad("undo", "undoing step %d (%s %s) gives %s instead of %s" % (i, kind, json.dumps(_sj(s))[:200], str(r.doc)[:200], str(tr.docs[i])[:200]), step=kind, **extra)
            return
        ctx.count("undo_checked_steps")
        if not inverse_map_law(ctx, s, tr.docs[i], inv, cur, bad):
            return
        cur = r.doc
    kinds = [type(s).__name__[:-4] for s in tr.steps]
    sig = [(o["op"], o["outcome"]) for o in log][:4]
    ctx.cover([sch.id, sig, min(n, 6)], nontrivial=(n >= 2 and len(set(kinds)) >= 2) or any(o["outcome"] != "ok" for o in log))
    if ctx.counters["histories"] % 100 == 1:
        ctx.sample({"schema": sch.id, "doc": str(d)[:200], "ops": log[:6], "steps": len(tr.steps)})


def _order_only(a, b):
    """Do the two documents differ only in the relative order of marks of the same type
    (same rank) inside some mark set?"""
    def canon(c):
        if c[0] == "t":
            return ("t", c[1], tuple(sorted(c[2])))
        return ("n", c[1], c[2], tuple(sorted(c[3])), tuple(canon(k) for k in c[4]))

    pa, pb = flat.pt(a), flat.pt(b)
    return pa != pb and canon(pa) == canon(pb)


def _sj(s):
    try:
        return s.to_json()
    except Exception:
        return type(s).__name__


def _around_mech(step):
    """Structural facts for the structure-flag inversion finding."""
    def has_leaf(frag):
        for c in frag.content:
            if c.is_text or c.is_leaf or has_leaf(c.content):
                return True
        return False
    return {"structure": bool(step.structure), "slice_has_leaf": has_leaf(step.slice.content)}


def _node_mark_mech(step, doc):
    """Structural facts for the AddNodeMarkStep.invert finding."""
    node = doc.node_at(step.pos)
    if node is None:
        return {}
    displaced = [m for m in node.marks if step.mark.type.excludes(m.type) and not m.eq(step.mark)]
    return {"displaced": len(displaced), "asymmetric": any(not m.type.excludes(step.mark.type) for m in displaced),
            "already_present": any(m.eq(step.mark) for m in node.marks)}


def single(ctx, rnd):
    """Single-step exact undo, every schema."""
    from prosemirror.transform import ReplaceAroundStep, Transform

    sch = pick_schema(rnd, random_share=0.35)
    if sch is None:
        ctx.count("schema_gen_failed")
        return
    stepmon.register(sch)
    rs, leaf = sch.ref, sch.leaf
    g = gen.DocGen(sch, rnd, wide=0.15, mark_p=0.35)
    d, p = g.doc()
    tk = flat.toks(p[4], leaf)
    prof = flat.depth_profile(tk)
    others = other_docs(sch, rnd, 2)
    slices = gensteps.valid_slices(sch, rnd, [(d, p)] + others, per=4)
    base = describe_doc(sch, d)
    sid = sch.cls if sch.cls == "random" else sch.id
    steps = []
    for kind in ("replace", "replace", "replace", "attr", "docAttr", "addNodeMark", "removeNodeMark", "addNodeMark"):
        for _ in range(3):
            s, tag = gensteps.gen_step(sch, rnd, g, d, p, tk, prof, slices, kind)
            if tag in ("attr-undeclared", "docAttr-undeclared"):
                continue
            steps.append((s, tag))
    # API-made replace-around steps
    tr = Transform(d)
    for _ in range(6):
        op = genops.gen_op(sch, rnd, g, d, slices, ["lift", "wrap", "set_block_type", "set_node_markup", "replace", "replace_range"])
        t2 = Transform(d)
        opwork.run_op(t2, op, d.content.size, 40)
        if t2.steps and isinstance(t2.steps[0], ReplaceAroundStep):
            steps.append((t2.steps[0], "api-around:" + op.name))
    for s, tag in steps:
        kind = type(s).__name__
        det = {**base, "step": _sj(s), "tag": tag}

        def bad(oracle, msg, **mech):
            ctx.violation(oracle, msg, det, {"step": kind, "tag": tag.split(":")[0], **mech})

        try:
            r = s.apply(d)
        except Exception:
            continue
        if r.doc is None:
            continue
        if rs.why_invalid(flat.pt(r.doc)) is not None:
            ctx.count("single_step_invalid_result_not_judged")
            continue
        ctx.ev()
        try:
            inv = s.invert(d)
            back = inv.apply(r.doc)
        except Exception as e:
            bad("single-undo", "%s.invert(doc)/apply raised %s: %s" % (kind, type(e).__name__, e), exc=type(e).__name__)
            continue
        if back.doc is None:
            extra = _around_mech(s) if kind == "ReplaceAroundStep" else {}
            bad("single-undo", "the inverse of %s failed: %s" % (kind, back.failed), failed=True, **extra)
            continue
        if not eq_docs(back.doc, d):
            extra = _node_mark_mech(s, d) if kind == "AddNodeMarkStep" else {}
            extra["differs_only_in_same_type_mark_order"] = _order_only(back.doc, d)
            bad("single-undo", "%s %s then its inverse gives %s instead of %s" % (kind, json.dumps(_sj(s))[:200], str(back.doc)[:200], str(d)[:200]), **extra)
            continue
        ctx.count("single_steps_undone")
        ctx.count("single_undone:%s" % kind)
        inverse_map_law(ctx, s, d, inv, r.doc, bad)
        ctx.cover([sid, kind, tag.split(":")[0], getattr(s, "structure", None)], nontrivial=True)


def case(ctx, rnd, i):
    if i % 4 == 2:
        single(ctx, rnd)
    elif i % 4 == 3:
        ctx.count("mark_heavy_histories")
        history(ctx, rnd, marky=True)
    else:
        history(ctx, rnd)
