"""Workload: histories of high-level Transform operations (shared by several properties;
each property arms its own monitors / adds its own oracle around `run_history`)."""
from .. import budget, flat, gen, genops, gensteps, schemas
from ..budget import StepBudgetExceeded
from ..monitors import step as stepmon
from .common import other_docs, pick_schema

_WATCH = None


def watch():
    """LINE-budget watchdog on the transform-level code (Fitter and friends)."""
    global _WATCH
    if _WATCH is None:
        import prosemirror.transform.replace as R
        import prosemirror.transform.structure as ST
        import prosemirror.transform.transform as T

        _WATCH = budget.Watch([R, T, ST])
    return _WATCH


def line_budget(doc_tokens, extra=0):
    return 20000 * (doc_tokens + extra + 10)


def run_op(tr, op, doc_tokens, extra=0):
    """-> (outcome, exception or None); outcome in ok / rejected / internal / budget."""
    try:
        watch().run(line_budget(doc_tokens, extra), op.fn, tr)
        return "ok", None
    except StepBudgetExceeded as e:
        return "budget", e
    except ValueError as e:
        if isinstance(e, UnicodeError):
            return "internal", e
        return "rejected", e
    except Exception as e:
        return "internal", e


def setup_history(ctx, rnd, ids=None, random_share=0.0, nslices=4, wide=0.1, mark_p=0.25, budget=None):
    sch = pick_schema(rnd, random_share=random_share, ids=ids)
    if sch is None:
        ctx.count("schema_gen_failed")
        return None
    stepmon.register(sch)
    g = gen.DocGen(sch, rnd, wide=wide, mark_p=mark_p)
    d, p = g.doc(budget)
    others = other_docs(sch, rnd, 2)
    slices = gensteps.valid_slices(sch, rnd, [(d, p)] + others, per=nslices)
    return sch, g, d, p, slices


def transform_workload(ctx, rnd, mon, ids=None, random_share=0.15, kinds=None, maxops=8):
    from prosemirror.transform import Transform

    st = setup_history(ctx, rnd, ids=ids, random_share=random_share)
    if st is None:
        return
    sch, g, d, p, slices = st
    mon.sid = sch.cls if sch.cls == "random" else sch.id
    mon.via_json = False
    tr = Transform(d)
    for _ in range(rnd.randint(1, maxops)):
        if sch.ref.why_invalid(flat.pt(tr.doc)) is not None:
            ctx.count("history_dropped_invalid_intermediate")
            break
        op = genops.gen_op(sch, rnd, g, tr.doc, slices, kinds)
        mon.origin = "Transform." + op.name
        mon.tag = op.name
        out, _e = run_op(tr, op, tr.doc.content.size, 40)
        ctx.count("op_%s:%s" % (out, op.name))
    mon.origin = "primitive"
