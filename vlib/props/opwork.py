"""Workload: histories of high-level Transform operations (shared by several properties;
each property arms its own monitors / adds its own oracle around `run_history`)."""
from .. import budget, flat, gen, genops, gensteps, schemas
from ..budget import StepBudgetExceeded
from ..monitors import step as stepmon
from .common import other_docs, pick_schema

_WATCH = None


def watch():
    """LINE-budget watchdog on the transform-level code (Fitter and friends)."""
    global _WATCH
    if _WATCH is None:
        import prosemirror.transform.replace as R
        import prosemirror.transform.structure as ST
        import prosemirror.transform.transform as T

        _WATCH = budget.Watch([R, T, ST])
    return _WATCH


def line_budget(doc_tokens, extra=0):
    return 20000 * (doc_tokens + extra + 10)


def run_op(tr, op, doc_tokens, extra=0):
    """-> (outcome, exception or None); outcome in ok / rejected / internal / budget."""
    try:
        watch().run(line_budget(doc_tokens, extra), op.fn, tr)
        return "ok", None
    except StepBudgetExceeded as e:
        return "budget", e
    except ValueError as e:
        if isinstance(e, UnicodeError):
            return "internal", e
        return "rejected", e
    except Exception as e:
        return "internal", e


def setup_history(ctx, rnd, ids=None, random_share=0.0, nslices=4, wide=0.1, mark_p=0.25, budget=None, nested_attrs=False):
    sch = pick_schema(rnd, random_share=random_share, ids=ids)
    if sch is None:
        ctx.count("schema_gen_failed")
        return None
    stepmon.register(sch)
    g = gen.DocGen(sch, rnd, wide=wide, mark_p=mark_p)
    g.nested_attrs = nested_attrs  # list / dict attribute values in a quarter of the generic attributes
    d, p = g.doc(budget)
    others = other_docs(sch, rnd, 2)
    slices = gensteps.valid_slices(sch, rnd, [(d, p)] + others, per=nslices)
    return sch, g, d, p, slices


def transform_workload(ctx, rnd, mon, ids=None, random_share=0.15, kinds=None, maxops=8):
    from prosemirror.transform import Transform

    st = setup_history(ctx, rnd, ids=ids, random_share=random_share)
    if st is None:
        return
    sch, g, d, p, slices = st
    mon.sid = sch.cls if sch.cls == "random" else sch.id
    mon.via_json = False
    tr = Transform(d)
    for _ in range(rnd.randint(1, maxops)):
        if sch.ref.why_invalid(flat.pt(tr.doc)) is not None:
            ctx.count("history_dropped_invalid_intermediate")
            break
        op = genops.gen_op(sch, rnd, g, tr.doc, slices, kinds)
        mon.origin = "Transform." + op.name
        mon.tag = op.name
        out, _e = run_op(tr, op, tr.doc.content.size, 40)
        ctx.count("op_%s:%s" % (out, op.name))
    mon.origin = "primitive"
    if getattr(mon, "c03", False) and tr.steps:
        check_history_mapping(ctx, sch, tr)


def check_history_mapping(ctx, sch, tr):
    """C03, history clause: Transform.mapping maps every token of `before` that no step of the
    history touched to its place in the final document (tracked step by step with the
    reference rule, compared with the library's composed mapping)."""
    from .. import refmap

    leaf = sch.leaf
    docs = list(tr.docs) + [tr.doc]
    if any(sch.ref.why_invalid(flat.pt(x)) is not None for x in docs):
        return
    old = flat.toks(flat.pt(docs[0])[4], leaf)
    new = flat.toks(flat.pt(docs[-1])[4], leaf)
    trs = [refmap.normal_ranges(list(m.ranges), bool(m.inverted)) for m in tr.mapping.maps]
    markup_only = [type(s).__name__ not in ("ReplaceStep", "ReplaceAroundStep") for s in tr.steps]
    ctx.count("history_mappings")
    ctx.ev()
    tracked = 0
    for i, t in enumerate(old):
        pos = i
        alive = True
        for tr_ in trs:
            if not refmap.token_outside(tr_, pos):
                alive = False
                break
            pos = refmap.map_pos(tr_, pos, 1).pos
        if not alive:
            continue
        try:
            j = tr.mapping.map(i, 1)
        except Exception as e:
            ctx.violation("history-mapping", "Transform.mapping.map(%d) raised %s: %s" % (i, type(e).__name__, e),
                          {"schema": sch.id, "steps": [s.to_json() for s in tr.steps]}, {"exc": type(e).__name__})
            return
        u = new[j] if 0 <= j < len(new) else None
        same = u is not None and u[0] == t[0] and (t[0] == "C" or u[1] == t[1]) if any(markup_only) else u == t
        if j != pos or not same:
            ctx.violation("history-mapping", "token %d %r of `before` is untouched by the %d steps; Transform.mapping sends it to %d (reference %d) where the final document has %r"
                          % (i, t, len(trs), j, pos, u), {"schema": sch.id, "before": str(docs[0])[:300], "steps": [s.to_json() for s in tr.steps]},
                          {"nsteps": len(trs)})
            return
        tracked += 1
    ctx.count("history_tokens_tracked", tracked)
