"""C05 - JSON serialisation of documents, slices, marks and steps is lossless."""
import copy
import json

from .. import flat, gen, genops, gensteps
from . import opwork
from .common import describe_doc, other_docs, pick_schema

ID = "C05"
LEVEL = "exploration"
RULE = (
    "case = one schema (catalogue / random) with generated documents (attrs None / default / nested "
    "lists+dicts, several marks with attrs, astral text): every node of the document, its fragments, "
    "slices at sampled ranges (open, closed, zero-size with content), every mark, and steps of all 8 "
    "types (primitive generators + steps emitted by the transform API) go through to_json -> "
    "json.dumps -> json.loads -> from_json. Checked: eq / plain-tree equality, identical JSON again, "
    "plain-JSON-data only, no container of the JSON is a container of the live object (identity), "
    "poisoning the JSON in place does not change a second to_json(), decoded steps have equal fields "
    "and the same effect and map on the source document and on 3 other documents, registry names. "
    "distinct = (schema, object kind, shape: open sides / has attrs / has marks / nested attrs / step "
    "tag); trivial = empty slice."
)
ASSUMPTIONS = ["step equality = same class, equal integer / attr / value fields, mark.eq, slice.eq (the library defines no Step.eq)"]
NAMES = {"replace", "replaceAround", "addMark", "removeMark", "addNodeMark", "removeNodeMark", "attr", "docAttr"}


def cases(tier):
    return 4000 if tier == "quick" else 100000


def floors(tier):
    f = {"objects": 8000, "steps_roundtripped": 3000, "alias_checks": 5000, "distinct_nontrivial": 80}
    for k in NAMES:
        f["step_kind:" + k] = 100
    return f


def plain_json(x, path="$"):
    if x is None or isinstance(x, (str, bool, int, float)):
        return None
    if isinstance(x, list):
        for i, v in enumerate(x):
            r = plain_json(v, "%s[%d]" % (path, i))
            if r:
                return r
        return None
    if type(x) is dict:
        for k, v in x.items():
            if not isinstance(k, str):
                return "%s has a non-string key %r" % (path, k)
            r = plain_json(v, path + "." + k)
            if r:
                return r
        return None
    return "%s is a %s" % (path, type(x).__name__)


def containers(x, out=None):
    """ids of all mutable containers reachable from a JSON-like value."""
    if out is None:
        out = {}
    if isinstance(x, (list, dict)):
        if id(x) in out:
            return out
        out[id(x)] = x
        for v in (x.values() if isinstance(x, dict) else x):
            containers(v, out)
    return out


def live_containers(obj, out=None):
    """Containers owned by a live library object: attrs of nodes / marks (deep), default
    attrs of their types, step values."""
    from prosemirror.model import Fragment, Mark, Node, Slice

    if out is None:
        out = {}
    if isinstance(obj, Node):
        containers(obj.attrs, out)
        containers(obj.type.default_attrs, out)
        for m in obj.marks:
            live_containers(m, out)
        for c in obj.content.content:
            live_containers(c, out)
    elif isinstance(obj, Mark):
        containers(obj.attrs, out)
        containers(obj.type.attrs and {k: a.default for k, a in obj.type.attrs.items()}, out)
    elif isinstance(obj, Fragment):
        for c in obj.content:
            live_containers(c, out)
    elif isinstance(obj, Slice):
        live_containers(obj.content, out)
    else:  # step
        for name in ("slice", "mark"):
            v = getattr(obj, name, None)
            if v is not None:
                live_containers(v, out)
        if hasattr(obj, "value"):
            containers(obj.value, out)
    return out


def poison(x):
    if isinstance(x, list):
        for v in list(x):
            poison(v)
        x.append("POISON")
    elif isinstance(x, dict):
        for v in list(x.values()):
            poison(v)
        x["POISON"] = 1


def roundtrip(j):
    return json.loads(json.dumps(j))


def check_obj(ctx, sch, kind, x, to_json, from_json, eq, shape, trivial=False):
    ctx.count("objects")
    ctx.ev()
    det = {"schema": sch.id, "kind": kind, "object": str(x)[:300]}

    def bad(oracle, msg, **mech):
        ctx.violation(oracle, "%s: %s" % (kind, msg), det, {"kind": kind, **mech})

    try:
        j = to_json(x)
    except Exception as e:
        bad("to_json-raised", "to_json raised %s: %s" % (type(e).__name__, e), exc=type(e).__name__)
        return None
    det["json"] = copy.deepcopy(j)
    why = plain_json(j)
    if why:
        bad("not-plain-json", why)
        return None
    try:
        txt = json.dumps(j)
    except Exception as e:
        bad("not-plain-json", "json.dumps raised %s" % e)
        return None
    # aliasing
    ctx.count("alias_checks")
    live = live_containers(x)
    shared = [k for k in containers(j) if k in live]
    if shared:
        bad("json-aliases-live-object", "the JSON shares %d mutable container(s) with the live object, e.g. %r" % (len(shared), live[shared[0]]))
    snapshot = copy.deepcopy(j)
    poison(j)
    try:
        j2 = to_json(x)
    except Exception as e:
        bad("to_json-raised", "second to_json raised %s" % e)
        return None
    if j2 != snapshot:
        bad("json-poisoning-visible", "mutating the produced JSON changed what to_json() returns afterwards")
        return None
    try:
        y = from_json(json.loads(txt))
    except Exception as e:
        bad("from_json-raised", "from_json raised %s: %s" % (type(e).__name__, e), exc=type(e).__name__)
        return None
    try:
        same = eq(x, y)
    except Exception as e:
        bad("eq-raised", "equality raised %s: %s" % (type(e).__name__, e))
        return None
    if not same:
        bad("roundtrip-not-equal", "decoded object %s is not equal to the original" % (str(y)[:300],), **shape)
        return None
    try:
        j3 = to_json(y)
    except Exception as e:
        bad("to_json-raised", "to_json of the decoded object raised %s" % e)
        return None
    if j3 != snapshot:
        bad("roundtrip-json-differs", "decoded object serialises to different JSON: %r" % (j3,))
        return None
    ctx.cover([sch.cls if sch.cls == "random" else sch.id, kind, shape], nontrivial=not trivial)
    return y


def step_fields(s):
    out = {"class": type(s).__name__}
    for f in ("from_", "to", "gap_from", "gap_to", "insert", "structure", "pos", "attr", "value"):
        if hasattr(s, f):
            out[f] = getattr(s, f)
    return out


def steps_equal(a, b):
    if step_fields(a) != step_fields(b):
        return False
    if hasattr(a, "mark") and not (a.mark.eq(b.mark) and b.mark.eq(a.mark)):
        return False
    if hasattr(a, "slice"):
        if not (a.slice.eq(b.slice) and b.slice.eq(a.slice)):
            return False
    return True


def same_effect(ctx, sch, s1, s2, docs, det):
    for d in docs:
        outs = []
        for s in (s1, s2):
            try:
                r = s.apply(d)
                outs.append(("ok", flat.pt(r.doc)) if r.doc is not None else ("failed", None))
            except ValueError:
                outs.append(("raised", None))
            except Exception as e:
                outs.append(("internal:" + type(e).__name__, None))
        if outs[0] != outs[1]:
            ctx.violation("step-effect-differs", "original and decoded step behave differently on %s: %s vs %s" % (str(d)[:200], outs[0][0], outs[1][0]), det,
                          {"kind": type(s1).__name__})
            return False
    try:
        m1, m2 = s1.get_map(), s2.get_map()
        if list(m1.ranges) != list(m2.ranges) or bool(m1.inverted) != bool(m2.inverted):
            ctx.violation("step-map-differs", "original and decoded step report different maps %r vs %r" % (m1.ranges, m2.ranges), det, {"kind": type(s1).__name__})
            return False
    except Exception as e:
        ctx.violation("step-map-differs", "get_map raised %s" % e, det)
        return False
    return True


def case(ctx, rnd, i):
    from prosemirror.model import Fragment, Mark, Node, Slice
    from prosemirror.transform import Step, Transform
    from prosemirror.transform.step import STEPS_BY_ID

    if i % 50 == 0:
        names = set(STEPS_BY_ID)
        if names != NAMES:
            ctx.violation("registry", "STEPS_BY_ID has names %r, expected %r" % (sorted(names), sorted(NAMES)), {})
        for nm, cls in STEPS_BY_ID.items():
            if getattr(cls, "json_id", None) != nm:
                ctx.violation("registry", "class %s registered as %r has json_id %r" % (cls.__name__, nm, getattr(cls, "json_id", None)), {})
        ctx.count("registry_checks")
    sch = pick_schema(rnd, random_share=0.3)
    if sch is None:
        ctx.count("schema_gen_failed")
        return
    S, rs = sch.schema, sch.ref
    g = gen.DocGen(sch, rnd, wide=0.25, mark_p=0.4)
    g.nested_attrs = True
    d, p = g.doc()
    ctx.sample({"schema": sch.id, "doc_json": d.to_json()})
    node_eq = lambda a, b: a.eq(b) and b.eq(a) and flat.pt(a) == flat.pt(b)  # noqa: E731

    # ---- nodes (the document and every inner node), fragments, marks
    nodes = []
    d.descendants(lambda n_, pos, par, idx: nodes.append(n_))
    for n_ in [d] + (nodes if len(nodes) <= 12 else rnd.sample(nodes, 12)):
        t = flat.pt(n_)
        shape = {"attrs": bool(n_.attrs), "marks": len(n_.marks), "text": n_.is_text,
                 "nested": any(isinstance(v, (list, dict)) for v in (n_.attrs or {}).values())}
        check_obj(ctx, sch, "node", n_, lambda x: x.to_json(), lambda j: Node.from_json(S, j), node_eq, shape)
        if rnd.random() < 0.3:
            check_obj(ctx, sch, "node-from-string", n_, lambda x: x.to_json(), lambda j: Node.from_json(S, json.dumps(j)), node_eq, shape)
        if not n_.is_text:
            check_obj(ctx, sch, "fragment", n_.content, lambda x: x.to_json(), lambda j: Fragment.from_json(S, j),
                      lambda a, b: a.eq(b) and flat.pt_frag(a) == flat.pt_frag(b), {"children": min(n_.child_count, 3)}, trivial=n_.child_count == 0)
        for m in n_.marks:
            check_obj(ctx, sch, "mark", m, lambda x: x.to_json(), lambda j: Mark.from_json(S, j),
                      lambda a, b: a.eq(b) and b.eq(a) and flat.mkey(a) == flat.mkey(b), {"attrs": bool(m.attrs)})
    # ---- slices
    n = d.content.size
    tk = flat.toks(p[4], sch.leaf)
    prof = flat.depth_profile(tk)
    sl_eq = lambda a, b: a.eq(b) and b.eq(a) and a.open_start == b.open_start and a.open_end == b.open_end and flat.pt_frag(a.content) == flat.pt_frag(b.content)  # noqa: E731
    for _ in range(8):
        a = rnd.randint(0, n)
        b = rnd.randint(a, n)
        try:
            s = d.slice(a, b)
        except Exception:
            continue
        check_obj(ctx, sch, "slice", s, lambda x: x.to_json(), lambda j: Slice.from_json(S, j), sl_eq,
                  {"open": [min(s.open_start, 2), min(s.open_end, 2)]}, trivial=a == b)
    # zero-size slices that still have content: <p></p> opened on both sides
    tbs = [x for x, t in rs.nodes.items() if not t.is_leaf and not t.is_text and not t.required_attrs]
    if tbs:
        z = Slice(Fragment.from_(S.nodes[rnd.choice(tbs)].create()), 1, 1)
        ctx.count("zero_size_slices")
        try:
            jz = z.to_json()
            back = Slice.from_json(S, roundtrip(jz))
            if back.size != 0:
                ctx.violation("zero-size-slice", "zero-size slice decoded with size %d" % back.size, {"slice": str(z)})
        except Exception as e:
            ctx.violation("zero-size-slice", "zero-size slice to/from JSON raised %s: %s" % (type(e).__name__, e), {"slice": str(z)}, {"exc": type(e).__name__})
    # ---- steps
    others = other_docs(sch, rnd, 3)
    slices = gensteps.valid_slices(sch, rnd, [(d, p)] + others[:2], per=3)
    if tbs and rnd.random() < 0.5:
        slices.append(Slice(Fragment.from_(S.nodes[rnd.choice(tbs)].create()), 1, 1))
    steps = []
    for kind in gensteps.KINDS:
        for _ in range(2):
            st, tag = gensteps.gen_step(sch, rnd, g, d, p, tk, prof, slices, kind)
            steps.append((st, tag))
    tr = Transform(d)
    for _ in range(4):
        op = genops.gen_op(sch, rnd, g, tr.doc, slices)
        opwork.run_op(tr, op, tr.doc.content.size, 40)
    for st in tr.steps:
        steps.append((st, "api"))
    api_docs = list(tr.docs) + [tr.doc]
    for st, tag in steps:
        kindname = st.to_json().get("stepType") if hasattr(st, "to_json") else "?"
        ctx.count("step_kind:%s" % kindname)
        shape = {"tag": tag}
        if hasattr(st, "slice"):
            shape["open"] = [min(st.slice.open_start, 2), min(st.slice.open_end, 2)]
            shape["zero"] = st.slice.size == 0 and st.slice.content.size > 0
        if hasattr(st, "value"):
            shape["value"] = type(st.value).__name__
        y = check_obj(ctx, sch, "step:" + str(kindname), st, lambda x: x.to_json(), lambda j: Step.from_json(S, j), steps_equal, shape)
        if y is None:
            continue
        ctx.count("steps_roundtripped")
        if type(y) is not type(st):
            ctx.violation("step-class", "decoded %s as %s" % (type(st).__name__, type(y).__name__), {"step": st.to_json()})
            continue
        det = {"schema": sch.id, "step": st.to_json(), "tag": tag}
        same_effect(ctx, sch, st, y, [d] + [o[0] for o in others] + (api_docs[:2] if tag == "api" else []), det)
        # decoding from a JSON string as well
        if rnd.random() < 0.3:
            try:
                y2 = Step.from_json(S, json.dumps(st.to_json()))
                if not steps_equal(st, y2):
                    ctx.violation("roundtrip-not-equal", "Step.from_json(str) differs", det, {"kind": "step-from-string"})
            except Exception as e:
                ctx.violation("from_json-raised", "Step.from_json(str) raised %s: %s" % (type(e).__name__, e), det, {"kind": "step-from-string", "exc": type(e).__name__})
