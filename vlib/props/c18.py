"""C18 - edits made inside an isolating node never reach outside it."""
from .. import flat, gen, genops, gensteps, schemas
from ..budget import StepBudgetExceeded
from ..monitors import step as stepmon
from ..refschema import EMPTY, deriv, first
from . import opwork
from .common import describe_doc, other_docs

ID = "C18"
LEVEL = "exploration"
RULE = (
    "case = one valid document of the isolating variants (iso: isolating block container, table: "
    "isolating table and cells, isolist: isolating list items) containing at least one isolating node; "
    "for sampled instances N (any nesting depth) and ranges with both ends inside N's content "
    "(including its whole content and empty ranges): replace, replace_with, insert, delete, "
    "replace_range, replace_range_with, delete_range with slices of every open depth (with and without "
    "isolating nodes). Oracle: every token up to and including N's open token and from N's close token "
    "on is unchanged, and the close token matching N's open token is still the old one (N was not split "
    "or merged). Slices include cuts from inside one isolating node to inside a following sibling. For a "
    "direct replace whose slice has, on its open left side, an isolating node that is closed at its end "
    "and that some open level accepts without wrapping, the node must stay together: its text and leaves, "
    "when identifiable in the result, are exactly the text and leaves of one node of its type (the "
    "slice-side guard of the fitter). lift_target on block ranges inside N never lifts out of N; can_split inside N "
    "never splits N; Slice.max_open(fragment, False) never opens through an isolating node and equals "
    "max_open above it. distinct = (schema, op, depth of N, range shape, slice has isolating node, "
    "outcome); trivial = empty range with empty slice."
)
ASSUMPTIONS = ["an operation that raises is C11's business; only returned results are judged here",
               "the slice-side clause is judged only where the fitter's first (non-wrapping) pass can place the isolating slice node; its wrapping pass may open such a node (upstream-identical)"]
OPS = genops.REPLACE_FAMILY


def cases(tier):
    return 4500 if tier == "quick" else 120000


def floors(tier):
    return {"ops_inside": 10000, "delete_family_inside": 2500, "lift_targets_inside": 200, "can_split_inside": 1000, "slice_maxopen_checks": 1000, "distinct_nontrivial": 120,
            "slice_isolating_unit:kept": 50, "slices_spanning_sibling_isolating_nodes": 500}


def isolating_nodes(tk, rs):
    out = []
    for i, t in enumerate(tk):
        if t[0] == "O" and rs.nodes[t[1]].isolating:
            out.append((i, gensteps.matching_close(tk, i)))
    return out


def spanning_slices(sch, rnd, sources):
    """Slices cut from inside one isolating node to inside a later sibling isolating node (what
    a selection across two table cells / containers copies): several top-level isolating
    nodes, open into the first and the last.  Confirmed by the reference cut."""
    out = []
    rs, leaf = sch.ref, sch.leaf
    for sd, sp in sources:
        tk = flat.toks(sp[4], leaf)
        iso = isolating_nodes(tk, rs)
        by_start = dict(iso)
        for (a, b) in iso:
            # following sibling(s): an isolating node opening right after this one closes
            nxt = b + 1
            hops = 0
            while nxt in by_start and hops < 2 and rnd.random() < 0.8:
                hops += 1
                e2 = by_start[nxt]
                f = rnd.randint(a + 1, b)
                t = rnd.randint(nxt + 1, e2)
                try:
                    sl = sd.slice(f, t)
                except Exception:
                    break
                if (flat.pt_frag(sl.content), sl.open_start, sl.open_end) == flat.ref_slice(sp[4], f, t, leaf):
                    out.append(sl)
                nxt = e2 + 1
    return out


def slice_unit(rs, content, open_start, open_end):
    """The isolating node on the slice's open left side that is closed at its end (nothing of
    the slice's right open side runs through it): the documented rule keeps such a node
    together - the fitter must not open it.  Returns the plain node or None."""
    cur, oe = content, open_end
    for dpt in range(open_start):
        if not cur or cur[0][0] != "n":
            return None
        node = cur[0]
        if len(cur) > 1:
            oe = 0
        if rs.nodes[node[1]].isolating and oe <= dpt:
            return node
        cur = node[4]
    return None


def unit_fits_directly(rs, p, leaf, frm, tname):
    from ..refschema import run as rrun

    for lv in ancestor_levels(p, frm, leaf):
        st = rrun(rs.nodes[lv[0]].regex, lv[1])
        if st is not EMPTY and deriv(st, tname) is not EMPTY:
            return True
    return False


def leafseq(children, leaf):
    return [(t[0], t[1]) for t in flat.toks(children, leaf) if t[0] in ("T", "L")]


def _find(hay, needle):
    n = len(needle)
    return [i for i in range(len(hay) - n + 1) if hay[i:i + n] == needle]


def unit_kept_together(rs, leaf, old_children, slice_content, unit, new_children):
    """None = not judged; True/False = the unit's text and leaves, identifiable in the result,
    are (not) the exact text and leaves of one node of the unit's type."""
    u = leafseq(unit[4], leaf)
    if len(u) < 2 or _find(leafseq(old_children, leaf), u) or len(_find(leafseq(slice_content, leaf), u)) != 1:
        return None
    if len(_find(leafseq(new_children, leaf), u)) != 1:
        return None  # dropped, or not identifiable
    found = []

    def walk(kids):
        for c in kids:
            if c[0] == "n":
                if c[1] == unit[1] and leafseq(c[4], leaf) == u:
                    found.append(c)
                walk(c[4])

    walk(new_children)
    return bool(found)


def types_in(children, out=None):
    out = set() if out is None else out
    for c in children:
        if c[0] == "n":
            out.add(c[1])
            types_in(c[4], out)
        else:
            out.add("text")
    return out


def reachable_inside(rs, tname):
    """Node types that can occur somewhere inside a node of type tname."""
    seen = set()
    work = [tname]
    while work:
        t = work.pop()
        for s in rs.nodes[t].symbols if hasattr(rs.nodes[t], "symbols") else ():
            if s not in seen:
                seen.add(s)
                work.append(s)
    return seen


def ancestor_levels(p, pos, leaf):
    """[(type name, names of the children before the insertion index)] for every ancestor of
    position pos, outermost first.  For the innermost level the index is the number of
    children that end at or before pos (+1 inside a text node); for outer levels it is the
    index after the child that contains pos (the fitter's frontier)."""
    out = []
    cur = p
    base = 0
    while True:
        names = []
        q = base
        nxt = None
        for c in cur[4]:
            sz = flat.node_size(c, leaf)
            nm = "text" if c[0] == "t" else c[1]
            if q + sz <= pos:
                names.append(nm)
                q += sz
                continue
            if c[0] == "n" and c[1] not in leaf and q < pos < q + sz:
                nxt = (c, q + 1)
                names.append(nm)
            elif c[0] == "t" and q < pos < q + sz:
                names.append(nm)
            break
        out.append((cur[1], names))
        if nxt is None:
            return out
        cur, base = nxt


def placement_facts(rs, p, leaf, frm, depthN, payload_types):
    """Is some payload node type accepted directly by no frontier level inside the
    isolating node but by a level outside it?"""
    from ..refschema import run as rrun

    levels = ancestor_levels(p, frm, leaf)
    inside = levels[depthN:]
    outside = levels[:depthN]

    def accepts(level, t):
        st = rrun(rs.nodes[level[0]].regex, level[1])
        return st is not EMPTY and deriv(st, t) is not EMPTY

    for t in payload_types:
        if not any(accepts(lv, t) for lv in inside) and any(accepts(lv, t) for lv in outside):
            return True
    return False


def placement_facts2(rs, p, leaf, frm, depthN, content, open_start):
    """Facts about why the document side of the fitter (which has no isolating guard) may put
    payload outside N: (no_inside_level_accepts) some node type of the payload - top level or
    along the open left side - is accepted directly by no frontier level inside N;
    (spine_type_is_outer_ancestor) a node that is open on the slice's left side has the type of
    N itself or of an ancestor outside N, so the fitter joins it with that ancestor."""
    from ..refschema import run as rrun

    levels = ancestor_levels(p, frm, leaf)
    inside = levels[depthN:]
    outer_types = {lv[0] for lv in levels[:depthN + 1]}  # ancestors outside N and N itself

    def accepts(level, t):
        st = rrun(rs.nodes[level[0]].regex, level[1])
        return st is not EMPTY and deriv(st, t) is not EMPTY

    no_inside = any(not any(accepts(lv, t) for lv in inside) for t in payload_types(content, open_start))
    spine = []
    cur = content
    for _ in range(open_start):
        if not cur or cur[0][0] != "n":
            break
        spine.append(cur[0][1])
        cur = cur[0][4]
    return {"no_inside_level_accepts": no_inside, "spine_type_is_outer_ancestor": any(t in outer_types for t in spine)}


def payload_types(content, open_start):
    """Top-level child types of a slice's content plus the child types along its open
    left side."""
    out = []
    cur = content
    for _ in range(open_start + 1):
        for c in cur:
            out.append("text" if c[0] == "t" else c[1])
        if not cur or cur[0][0] != "n":
            break
        cur = cur[0][4]
    return out


def case(ctx, rnd, i):
    from prosemirror.model import Fragment, Slice
    from prosemirror.transform import Transform, structure

    sch = schemas.get(rnd.choice(schemas.ISOLATING))
    stepmon.register(sch)
    S, rs, leaf = sch.schema, sch.ref, sch.leaf
    g = gen.DocGen(sch, rnd, wide=0.1)
    d = p = tk = None
    for _ in range(12):
        d, p = g.doc(rnd.choice([24, 36, 50, 60]))
        tk = flat.toks(p[4], leaf)
        if isolating_nodes(tk, rs):
            break
    else:
        ctx.count("no_isolating_node_generated")
        return
    n = len(tk)
    iso = isolating_nodes(tk, rs)
    others = other_docs(sch, rnd, 2)
    slices = gensteps.valid_slices(sch, rnd, [(d, p)] + others, per=5)
    span = spanning_slices(sch, rnd, [(d, p)] + others)
    if span:
        ctx.count("slices_spanning_sibling_isolating_nodes", len(span))
        slices = slices + span[:6]
    base = describe_doc(sch, d)
    if i % 20 == 0:
        ctx.sample({"schema": sch.id, "doc": str(d)[:200]})
    W = opwork.watch()

    for (a, b) in (iso if len(iso) <= 3 else rnd.sample(iso, 3)):
        depthN = len(flat.open_stack(tk, a + 1))
        ntype = tk[a][1]
        inside_types = reachable_inside(rs, ntype)
        anc_types = {tk[x][1] for x in flat.open_stack(tk, a)} | {rs.top}
        for _ in range(14):
            op = rnd.choice(OPS)
            r = rnd.random()
            if r < 0.15:
                f, t = a + 1, b
            elif r < 0.3:
                f = t = rnd.randint(a + 1, b)
            else:
                f = rnd.randint(a + 1, b)
                t = rnd.randint(f, b)
            slice_types = set()
            ptypes = []
            args = {"from": f, "to": t}
            if op in ("replace", "replace_range"):
                s = rnd.choice(slices) if slices and rnd.random() < 0.9 else Slice.empty
                slice_types = types_in(flat.pt_frag(s.content))
                ptypes = payload_types(flat.pt_frag(s.content), s.open_start)
                args.update(slice=s.to_json(), open=[s.open_start, s.open_end])
                fn = (lambda tr: tr.replace(f, t, s)) if op == "replace" else (lambda tr: tr.replace_range(f, t, s))
            elif op in ("replace_with", "insert", "replace_range_with"):
                nd = genops.valid_node(sch, g, rnd.choice([x for x in rs.nodes if x != rs.top]))
                if nd is None:
                    continue
                slice_types = types_in((flat.pt(nd),))
                ptypes = [nd.type.name]
                args["node"] = nd.to_json()
                if op == "insert":
                    t = f
                    fn = lambda tr: tr.insert(f, nd)  # noqa: E731
                elif op == "replace_with":
                    fn = lambda tr: tr.replace_with(f, t, nd)  # noqa: E731
                else:
                    fn = lambda tr: tr.replace_range_with(f, t, nd)  # noqa: E731
            elif op == "delete":
                fn = lambda tr: tr.delete(f, t)  # noqa: E731
            else:
                fn = lambda tr: tr.delete_range(f, t)  # noqa: E731
            tr = Transform(d)
            inner_calls = []
            if op in ("replace_range", "replace_range_with"):
                # observe where replace_range's preferred-depth / range-expansion search sends the
                # inner replace (a listed mechanism of C18: it must stop at isolating ancestors)
                real_replace = tr.replace

                def spy(from_, to=None, slice=None, _real=real_replace, _log=inner_calls):
                    _log.append((from_, from_ if to is None else to))
                    return _real(from_, to, slice)

                tr.replace = spy
            ctx.count("ops_inside")
            ctx.ev()
            if op in ("delete", "delete_range"):
                ctx.count("delete_family_inside")
            try:
                W.run(opwork.line_budget(n, 40), fn, tr)
            except BaseException:
                ctx.count("ops_raised_not_judged")
                continue
            new = flat.toks(flat.pt(tr.doc)[4], leaf)
            L = len(tk)
            head_ok = new[:a + 1] == tk[:a + 1]
            tail_ok = len(new) >= L - b and new[len(new) - (L - b):] == tk[b:]
            outside_old = tk[:a + 1] + tk[b:]
            it = iter(new)
            preserved = all(any(x == y for y in it) for x in outside_old)
            mech = {"op": op, "schema": sch.id, "iso_type": ntype, "delete_family": op in ("delete", "delete_range"),
                    "has_payload": bool(ptypes),
                    "inner_replace_range_outside_isolating_node": any(x < a + 1 or y > b for x, y in inner_calls),
                    "old_outside_tokens_preserved_in_order": preserved,
                    "payload_fits_directly_only_outside": placement_facts(rs, p, leaf, f, depthN, ptypes) if ptypes else False}
            if ptypes:
                if op in ("replace", "replace_range"):
                    mech.update(placement_facts2(rs, p, leaf, f, depthN, flat.pt_frag(s.content), s.open_start))
                else:
                    mech.update(placement_facts2(rs, p, leaf, f, depthN, (flat.pt(nd),), 0))
            det = {**base, "op": op, "args": args, "isolating_node": {"type": ntype, "open": a, "close": b}}
            if not head_ok or not tail_ok:
                ctx.violation("leaked", "%s(%d,%d) inside the isolating %s at %d..%d changed content %s it: %s" % (
                    op, f, t, ntype, a, b, "before" if not head_ok else "after", str(tr.doc)[:300]), det, mech)
                continue
            if op == "replace":
                # (replace_range re-cuts the slice before fitting; only the direct call is judged)
                sc = flat.pt_frag(s.content)
                unit = slice_unit(rs, sc, s.open_start, s.open_end)
                if unit is not None and not unit_fits_directly(rs, p, leaf, f, unit[1]):
                    # the guard covers the fitter's first pass (placing without wrapping); a unit
                    # that no open level accepts directly goes through the wrapping pass, which
                    # may open it (upstream-identical): not judged
                    ctx.count("slice_isolating_unit:needs_wrapping_not_judged")
                    unit = None
                if unit is not None:
                    kept = unit_kept_together(rs, leaf, p[4], sc, unit, flat.pt(tr.doc)[4])
                    ctx.count("slice_isolating_unit:%s" % {None: "not_identifiable", True: "kept", False: "opened"}[kept])
                    if kept is False:
                        ctx.violation("slice-isolating-node-opened", "%s(%d,%d): the isolating %s on the slice's open left side is closed at its end, but its content was "
                                      "merged into the surrounding document instead of staying one %s: %s" % (op, f, t, unit[1], unit[1], str(tr.doc)[:300]), det, mech)
                        continue
            # the node itself is still ONE node: the close token that matches its open token is
            # the old close token (head and tail alone also hold when the node was split in two
            # and the tail re-opened in a second copy)
            try:
                mc = gensteps.matching_close(new, a)
            except AssertionError:
                mc = None
            if mc != len(new) - (L - b):
                ctx.violation("node-split", "%s(%d,%d) inside the isolating %s at %d..%d: the node opened at %d now closes at %r, its old closing token is at %d (node split or merged): %s" % (
                    op, f, t, ntype, a, b, a, mc, len(new) - (L - b), str(tr.doc)[:300]), det, mech)
                continue
            ctx.cover([sch.id, op, depthN, f == a + 1 and t == b, f == t, bool(slice_types & {x for x in rs.nodes if rs.nodes[x].isolating}), bool(tr.steps)],
                      nontrivial=not (f == t and not slice_types))
        # ---- lift_target / can_split inside N
        for _ in range(8):
            f = rnd.randint(a + 1, b)
            t = rnd.randint(f, b)
            try:
                rng = d.resolve(f).block_range(d.resolve(t))
            except Exception:
                continue
            if f < t and (rng is None or rng.depth < depthN):
                # both ends lie inside N, which has block content: the block range around them is
                # N's own content or deeper.  A shallower range is how a lift would start from
                # outside N (it would take N itself along).
                ctx.violation("lift-crosses", "block_range(%d,%d) for positions inside the isolating %s at %d..%d is %s (content depth of the node %d): lifting it moves the node itself"
                              % (f, t, ntype, a, b, "None" if rng is None else "at depth %d" % rng.depth, depthN),
                              {**base, "range": [f, t], "isolating_node": {"type": ntype, "open": a, "close": b}}, {"helper": "block_range"})
                continue
            if rng is None or rng.depth < depthN:
                continue
            # the range must lie inside N
            if rng.start < a + 1 or rng.end > b:
                continue
            try:
                tgt = structure.lift_target(rng)
            except Exception:
                continue
            ctx.count("lift_targets_inside")
            ctx.ev()
            if tgt is not None and tgt < depthN:
                ctx.violation("lift-crosses", "lift_target for a range inside the isolating %s (content depth %d) is %d" % (ntype, depthN, tgt),
                              {**base, "range": [f, t], "isolating_node": {"type": ntype, "open": a, "close": b}}, {"helper": "lift_target"})
            else:
                ctx.cover([sch.id, "lift_target", tgt is not None, depthN])
        for _ in range(10):
            pos = rnd.randint(a + 1, b)
            depth = rnd.choice([1, 2, 3])
            ta = None
            if rnd.random() < 0.4:
                # a type for the part after the split at every level (as an editor command may pass)
                nonleaf = [x for x, t in rs.nodes.items() if not t.is_leaf and not t.is_text and not t.required_attrs and x != rs.top]
                ta = [structure.NodeTypeWithAttrs(S.nodes[rnd.choice(nonleaf)], None) for _ in range(depth)]
            try:
                ok = structure.can_split(d, pos, depth, ta)
            except Exception:
                continue
            ctx.count("can_split_inside")
            ctx.ev()
            pd = len(flat.open_stack(tk, pos))
            if ok and pd - depth < depthN:
                ctx.violation("split-crosses", "can_split(%d, depth=%d%s) is True although it would split the isolating %s (position depth %d, content depth of the node %d)"
                              % (pos, depth, ", types_after=%r" % [x.type.name for x in ta] if ta else "", ntype, pd, depthN),
                              {**base, "pos": pos, "depth": depth}, {"helper": "can_split", "types_after": ta is not None})
            else:
                ctx.cover([sch.id, "can_split", bool(ok), depth, pd - depthN])
    # ---- Slice.max_open
    frags = [d.content] + [o[0].content for o in others] + [s.content for s in slices[:4]]
    for fr in frags:
        ctx.count("slice_maxopen_checks")
        ctx.ev()
        fp = flat.pt_frag(fr)

        def ref_open(children, side, stop_iso):
            k = 0
            cur = children
            while cur:
                c = cur[0] if side == "start" else cur[-1]
                if c[0] != "n" or c[1] in leaf or c[1] == "text":
                    break
                if stop_iso and rs.nodes[c[1]].isolating:
                    break
                k += 1
                cur = c[4]
            return k

        try:
            s_all = Slice.max_open(fr)
            s_no = Slice.max_open(fr, False)
        except Exception as e:
            ctx.violation("max_open", "max_open raised %s: %s" % (type(e).__name__, e), {"fragment": str(fr)[:300]}, {"exc": type(e).__name__})
            continue
        exp_all = (ref_open(fp, "start", False), ref_open(fp, "end", False))
        exp_no = (ref_open(fp, "start", True), ref_open(fp, "end", True))
        if (s_all.open_start, s_all.open_end) != exp_all:
            ctx.violation("max_open", "max_open(fragment) = %r, reference %r" % ((s_all.open_start, s_all.open_end), exp_all), {"fragment": str(fr)[:300]}, {"isolating_arg": True})
        elif (s_no.open_start, s_no.open_end) != exp_no:
            ctx.violation("max_open", "max_open(fragment, open_isolating=False) = %r, reference %r (open through non-isolating nodes only) for %s"
                          % ((s_no.open_start, s_no.open_end), exp_no, str(fr)[:200]), {"fragment": str(fr)[:300], "fragment_json": fr.to_json()}, {"isolating_arg": False})
        else:
            ctx.cover([sch.id, "max_open", exp_all != exp_no, min(exp_all[0], 3), min(exp_all[1], 3)], nontrivial=exp_all != exp_no)
