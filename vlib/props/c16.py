"""C16 - a merged step is equivalent to the two steps it replaces."""
from .. import flat, gen, genops, gensteps, schemas
from ..monitors import step as stepmon
from . import opwork
from .common import describe_doc, other_docs

ID = "C16"
LEVEL = "exploration"
RULE = (
    "case = one valid document of a bundled schema / variant and ~60 ordered step pairs (s1, s2) with s2 "
    "built on s1(doc): replace steps constructed for both adjacency branches (s2.from == s1.from + "
    "s1.slice.size and s2.to == s1.from) with closed, half-open and empty slices, typing-like "
    "insertions, backspace / forward deletions, zero-size results, text that merges across the seam; "
    "add/remove-mark pairs with equal and different marks over overlapping, touching and disjoint "
    "ranges; consecutive step pairs of random transform histories. Whenever s1.merge(s2) is not None: "
    "it applies to the document, gives a document equal to s2(s1(doc)) with the same size change, and "
    "does so on every one of up to 5 further documents on which the two-step sequence applies. distinct "
    "= (schema, pair kind, merged?, open sides of both slices, outcome); trivial = unmerged pairs."
)
ASSUMPTIONS = ["only pairs whose second step applies to the result of the first are generated"]


def cases(tier):
    return 4000 if tier == "quick" else 100000


def floors(tier):
    return {"pairs": 15000, "merged": 2000, "merged:replace-after": 300, "merged:replace-before": 300, "merged:mark": 300,
            "merged_checked_on_other_docs": 300, "distinct_nontrivial": 60}


def apply2(s1, s2, d):
    r1 = s1.apply(d)
    if r1.doc is None:
        return None
    r2 = s2.apply(r1.doc)
    return r2.doc


def safe_apply(s, d):
    try:
        r = s.apply(d)
        return r.doc
    except ValueError:
        return None


def case(ctx, rnd, i):
    from prosemirror.model import Fragment, Slice
    from prosemirror.transform import AddMarkStep, RemoveMarkStep, ReplaceStep, Transform

    sch = schemas.get(rnd.choice(schemas.TOTALITY))
    if rnd.random() < 0.15:
        sch = schemas.mark_schema(rnd) or sch  # inline node with content, dense mark exclusion
    stepmon.register(sch)
    S, rs, leaf = sch.schema, sch.ref, sch.leaf
    g = gen.DocGen(sch, rnd, wide=0.1, mark_p=0.3)
    d, p = g.doc(rnd.choice([16, 24, 36]))
    tk = flat.toks(p[4], leaf)
    n = len(tk)
    prof = flat.depth_profile(tk)
    others = other_docs(sch, rnd, 2)
    slices = gensteps.valid_slices(sch, rnd, [(d, p)] + others, per=5)
    closed_end = [s for s in slices if s.open_end == 0]
    closed_start = [s for s in slices if s.open_start == 0]
    base = describe_doc(sch, d)
    if i % 20 == 0:
        ctx.sample({"schema": sch.id, "doc": str(d)[:200]})
    # variants of d on which the pair may apply as well
    variants = []
    for _ in range(3):
        m = gensteps.random_mark(sch, rnd, g)
        if m is None:
            break
        a = rnd.randint(0, n)
        b = rnd.randint(a, n)
        v = safe_apply(AddMarkStep(a, b, m), d) if rnd.random() < 0.5 else safe_apply(RemoveMarkStep(a, b, m), d)
        if v is not None and rs.why_invalid(flat.pt(v)) is None:
            variants.append(v)
    variants += [o[0] for o in others]

    def text_slice(txt, marks=()):
        return Slice(Fragment.from_(S.text(txt, flat.build_marks(S, marks))), 0, 0)

    def judge(s1, s2, kind):
        ctx.count("pairs")
        ctx.ev()
        det = {**base, "kind": kind, "s1": s1.to_json(), "s2": s2.to_json()}
        try:
            both = apply2(s1, s2, d)
        except Exception:
            return
        if both is None:
            ctx.count("pair_does_not_apply")
            return
        if rs.why_invalid(flat.pt(both)) is not None:
            return
        try:
            m = s1.merge(s2)
        except Exception as e:
            ctx.violation("merge-raised", "merge raised %s: %s" % (type(e).__name__, e), det, {"kind": kind, "exc": type(e).__name__})
            return
        shape = [getattr(getattr(s1, "slice", None), "open_start", None), getattr(getattr(s1, "slice", None), "open_end", None),
                 getattr(getattr(s2, "slice", None), "open_start", None), getattr(getattr(s2, "slice", None), "open_end", None)]
        if m is None:
            ctx.cover([sch.id, kind, "unmerged", shape], nontrivial=False)
            return
        ctx.count("merged")
        ctx.count("merged:" + kind.split(":")[0])
        det["merged"] = m.to_json()
        mech = {"kind": kind.split(":")[0], "shape": shape}
        try:
            r = m.apply(d)
        except Exception as e:
            ctx.violation("merged-raised", "the merged step raised %s: %s" % (type(e).__name__, e), det, {**mech, "exc": type(e).__name__})
            return
        if r.doc is None:
            ctx.violation("merged-fails", "s1.merge(s2) fails (%s) on the document on which s1 then s2 apply" % r.failed, det, mech)
            return
        if not (r.doc.eq(both) and both.eq(r.doc) and flat.pt(r.doc) == flat.pt(both)):
            ctx.violation("merged-differs", "merged step gives %s, the two steps give %s" % (str(r.doc)[:250], str(both)[:250]), det, mech)
            return
        if r.doc.content.size - d.content.size != both.content.size - d.content.size:
            ctx.violation("merged-size", "size change differs", det, mech)
            return
        try:
            ms = m.get_map()
            delta = sum(ms.ranges[k + 2] - ms.ranges[k + 1] for k in range(0, len(ms.ranges), 3))
            if delta != both.content.size - d.content.size:
                ctx.violation("merged-size", "the merged step's map changes the size by %d, the two steps by %d" % (delta, both.content.size - d.content.size), det, mech)
                return
        except Exception:
            pass
        for v in variants:
            try:
                bv = apply2(s1, s2, v)
            except Exception:
                continue
            if bv is None:
                continue
            ctx.count("merged_checked_on_other_docs")
            mv = safe_apply(m, v)
            if mv is None or flat.pt(mv) != flat.pt(bv):
                ctx.violation("merged-differs-elsewhere", "on another document where s1;s2 apply, the merged step %s" % ("fails" if mv is None else "gives a different document"),
                              {**det, "other_doc": v.to_json()}, mech)
                return
        ctx.cover([sch.id, kind, "merged", shape])

    # ---- replace pairs
    for _ in range(22):
        a = rnd.randint(0, n)
        b = rnd.randint(a, min(n, a + rnd.choice([0, 0, 1, 2, 4])))
        r = rnd.random()
        if r < 0.35:
            s = text_slice(rnd.choice(["a", "bc", "\U0001F600"]), rnd.choice([(), ()] + [tk[a - 1][2]] if a > 0 and tk[a - 1][0] == "T" else [()]))
        elif r < 0.5:
            s = Slice.empty
        else:
            s = rnd.choice(slices) if slices else Slice.empty
            if rnd.random() < 0.5:
                need = s.open_start - s.open_end
                compat = [(x, y) for x in range(n + 1) if prof[x] >= s.open_start for y in range(x, min(n, x + 6) + 1) if prof[x] - prof[y] == need]
                if compat:
                    a, b = rnd.choice(compat)
        s1 = ReplaceStep(a, b, s)
        d1 = safe_apply(s1, d)
        if d1 is None:
            continue
        n1 = d1.content.size
        # branch A: s2 starts right after what s1 inserted
        f2 = a + s.size
        for _k in range(2):
            t2 = min(n1, f2 + rnd.choice([0, 0, 1, 2, 3]))
            rr = rnd.random()
            if rr < 0.4:
                s2s = text_slice(rnd.choice(["x", "yz"]), rnd.choice([(), tk[a - 1][2] if a > 0 and tk[a - 1][0] == "T" else ()]))
            elif rr < 0.6:
                s2s = Slice.empty
            else:
                s2s = rnd.choice(closed_start or [Slice.empty])
            judge(s1, ReplaceStep(f2, t2, s2s), "replace-after")
        # branch B: s2 ends where s1 started
        for _k in range(2):
            f2b = max(0, a - rnd.choice([0, 1, 1, 2, 3]))
            rr = rnd.random()
            if rr < 0.4:
                s2s = Slice.empty
            elif rr < 0.7:
                s2s = text_slice(rnd.choice(["x", "yz"]))
            else:
                s2s = rnd.choice([x for x in slices if x.open_end == 0] or [Slice.empty])
            judge(s1, ReplaceStep(f2b, a, s2s), "replace-before")
        # unrelated second step
        a2 = rnd.randint(0, n1)
        judge(s1, ReplaceStep(a2, rnd.randint(a2, n1), Slice.empty), "replace-unrelated")
    # ---- mark pairs
    for _ in range(10):
        m = gensteps.random_mark(sch, rnd, g)
        if m is None:
            break
        m2 = m if rnd.random() < 0.7 else gensteps.random_mark(sch, rnd, g)
        a = rnd.randint(0, n)
        b = rnd.randint(a, n)
        rel = rnd.choice(["overlap", "touch", "disjoint", "inside"])
        if rel == "overlap":
            c = rnd.randint(a, b)
            e = rnd.randint(c, n)
        elif rel == "touch":
            c, e = b, rnd.randint(b, n)
        elif rel == "inside":
            c = rnd.randint(a, b)
            e = rnd.randint(c, b)
        else:
            c = rnd.randint(min(n, b + 1), n)
            e = rnd.randint(c, n)
        if rnd.random() < 0.5:
            a, b, c, e = c, e, a, b
        cls = AddMarkStep if rnd.random() < 0.5 else RemoveMarkStep
        cls2 = cls if rnd.random() < 0.85 else (RemoveMarkStep if cls is AddMarkStep else AddMarkStep)
        judge(cls(a, b, m), cls2(c, e, m2), "mark:" + rel)
    # ---- consecutive steps of a history
    tr = Transform(d)
    for _ in range(4):
        op = genops.gen_op(sch, rnd, g, tr.doc, slices)
        opwork.run_op(tr, op, tr.doc.content.size, 40)
    for k in range(len(tr.steps) - 1):
        if tr.docs[k] is d or True:
            base_doc = tr.docs[k]
            if rs.why_invalid(flat.pt(base_doc)) is None and base_doc is d:
                judge(tr.steps[k], tr.steps[k + 1], "history")
