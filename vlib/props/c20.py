"""C20 - diffing terminates and reports the true first / last difference."""
import json

from .. import budget, flat, gen, genops
from ..budget import StepBudgetExceeded
from . import opwork
from .common import describe_doc, pick_schema

ID = "C20"
LEVEL = "exploration"
RULE = (
    "case = a family of fragment pairs: (document before, after) of each applied operation of a "
    "random transform history (sharing almost all nodes by identity), the same pair with one side "
    "rebuilt through JSON (no sharing), the document with itself (same object and rebuilt copy), "
    "unrelated documents, and single-point mutations (a mark, an attribute, one astral character, "
    "half of a surrogate pair, one inserted/removed unit). find_diff_start/end run under a LINE "
    "budget of 2000*(tokens+10) on diff.py and are compared with the longest common prefix/suffix of "
    "the markup-carrying token lists. distinct = (schema, pair kind, start class, end class, shares "
    "nodes, astral); trivial = identical object."
)
ASSUMPTIONS = ["non-termination is decided by a LINE budget linear in the token count (a super-linear but terminating diff would be reported too)"]
_W = None


def cases(tier):
    return 6000 if tier == "quick" else 120000


def floors(tier):
    return {"pairs": 5000, "pairs_sharing_nodes": 500, "pairs_equal": 300, "pairs_astral": 100, "distinct_nontrivial": 40}


def watch():
    global _W
    if _W is None:
        import prosemirror.model.diff as D

        _W = budget.Watch([D])
    return _W


def lcp(x, y):
    n = min(len(x), len(y))
    i = 0
    while i < n and x[i] == y[i]:
        i += 1
    return i


def lcs(x, y):
    n = min(len(x), len(y))
    i = 0
    while i < n and x[-1 - i] == y[-1 - i]:
        i += 1
    return i


def judge(ctx, sch, fa, fb, kind, shares):
    leaf = sch.leaf
    A = flat.toks_markup(flat.pt_frag(fa), leaf)
    B = flat.toks_markup(flat.pt_frag(fb), leaf)
    ctx.count("pairs")
    ctx.ev()
    if shares:
        ctx.count("pairs_sharing_nodes")
    astral = any(t[0] == "T" and 0xD800 <= t[1] <= 0xDFFF for t in A + B)
    if astral:
        ctx.count("pairs_astral")
    if A == B:
        ctx.count("pairs_equal")
        es, ee = None, None
    else:
        es = lcp(A, B)
        s = lcs(A, B)
        ee = (len(A) - s, len(B) - s)
    det = {"schema": sch.id, "kind": kind, "a": str(fa)[:400], "b": str(fb)[:400], "a_json": fa.to_json(), "b_json": fb.to_json()}
    lim = 2000 * (len(A) + len(B) + 10)
    for which in ("start", "end"):
        try:
            if which == "start":
                got = watch().run(lim, fa.find_diff_start, fb)
                exp = es
            else:
                got = watch().run(lim, fa.find_diff_end, fb)
                got = (got["a"], got["b"]) if got is not None else None
                exp = ee
        except StepBudgetExceeded as e:
            ctx.violation("diff-nontermination", "find_diff_%s exceeded the step budget (%s) on fragments of %d/%d tokens" % (which, e, len(A), len(B)),
                          det, {"which": which, "shares": shares, "equal": A == B})
            continue
        except Exception as e:
            ctx.violation("diff-raised", "find_diff_%s raised %s: %s" % (which, type(e).__name__, e), det,
                          {"which": which, "exc": type(e).__name__, "astral": astral})
            continue
        if got != exp:
            ctx.violation("diff-" + which, "find_diff_%s = %r, token comparison gives %r" % (which, got, exp), det,
                          {"which": which, "astral": astral, "got_none": got is None, "exp_none": exp is None})
    try:
        eq = fa.eq(fb)
        if eq != (A == B):
            ctx.violation("diff-eq", "Fragment.eq = %r but token lists %s" % (eq, "equal" if A == B else "differ"), det)
    except Exception as e:
        ctx.violation("diff-raised", "Fragment.eq raised %s: %s" % (type(e).__name__, e), det, {"which": "eq", "exc": type(e).__name__})
    sc = "none" if es is None else "zero" if es == 0 else "inner"
    ctx.cover([sch.cls if sch.cls == "random" else sch.id, kind, sc, bool(shares), astral], nontrivial=fa is not fb)


def rebuild(sch, node):
    from prosemirror.model import Node

    return Node.from_json(sch.schema, json.loads(json.dumps(node.to_json())))


def mutate(sch, rnd, g, p):
    """A plain tree differing from p at one point."""
    leaf = sch.leaf
    paths = []

    def walk(c, path):
        paths.append((path, c))
        if c[0] == "n":
            for i, k in enumerate(c[4]):
                walk(k, path + (i,))

    walk(p, ())
    path, c = rnd.choice(paths)
    ms_ = c[2] if c[0] == "t" else c[3]
    with_attrs = [k for k, m in enumerate(ms_) if m[1] != "{}"]
    if with_attrs and path and rnd.random() < 0.3:
        # one attribute of one mark changed as little as possible
        k = rnd.choice(with_attrs)
        a = json.loads(ms_[k][1])
        key = rnd.choice(sorted(a))
        a[key] = gen.near_value(rnd, a[key])
        ms2 = ms_[:k] + ((ms_[k][0], flat.akey(a)),) + ms_[k + 1:]
        if len({m[0] for m in ms2}) == len(ms2) or ms2 != ms_:
            new = ("t", c[1], ms2) if c[0] == "t" else ("n", c[1], c[2], ms2, c[4])
            return _replace_at(p, path, new)
    if c[0] == "t":
        us = flat.units(c[1])
        r = rnd.random()
        i = rnd.randint(0, len(us) - 1)
        if r < 0.3:
            us = us[:i] + [0xD83D, 0xDE00] + us[i:]
        elif r < 0.5:
            us = us[:i] + [ord("z")] + us[i:]
        elif r < 0.7 and len(us) > 1:
            us = us[:i] + us[i + 1:]
        elif r < 0.85:
            us[i] = 0xDE01 if 0xDC00 <= us[i] <= 0xDFFF else (0xD83C if 0xD800 <= us[i] <= 0xDBFF else ord("q"))
        else:
            ms = g.marks_for(sch.ref.top, 0.5)
            new = ("t", c[1], ms)
            return _replace_at(p, path, new)
        new = ("t", flat.units_to_str(us), c[2])
    else:
        t = sch.ref.nodes[c[1]]
        if t.attrs and rnd.random() < 0.35:
            # one attribute changed as little as possible (list grown by an element, falsy
            # value swapped for another falsy value, ...)
            a = json.loads(c[2])
            k = rnd.choice(sorted(a))
            a[k] = gen.near_value(rnd, a[k])
            new = ("n", c[1], flat.akey(a), c[3], c[4])
        elif t.attrs and rnd.random() < 0.6:
            new = ("n", c[1], flat.akey(g.attrs(t.attrs, c[1], 1.0)), c[3], c[4])
        elif c[4] and rnd.random() < 0.5:
            new = ("n", c[1], c[2], c[3], c[4][:-1])
        else:
            # (merge_text: a duplicated text child next to equal-markup text must become one text node -
            # fragments with unmerged text are not documents)
            new = ("n", c[1], c[2], c[3], tuple(gen.merge_text(list(c[4]) + [c[4][0]]))) if c[4] else c
    return _replace_at(p, path, new)


def _replace_at(p, path, new):
    if not path:
        return new
    kids = list(p[4])
    kids[path[0]] = _replace_at(kids[path[0]], path[1:], new)
    return ("n", p[1], p[2], p[3], gen.merge_text(kids))


def case(ctx, rnd, i):
    from prosemirror.transform import Transform

    st = opwork.setup_history(ctx, rnd, random_share=0.2, wide=0.35, nested_attrs=True)
    if st is None:
        return
    sch, g, d, p, slices = st
    ctx.sample({"schema": sch.id, "doc": str(d)[:200]})
    judge(ctx, sch, d.content, d.content, "same-object", True)
    try:
        judge(ctx, sch, d.content, rebuild(sch, d).content, "rebuilt-copy", False)
    except Exception:
        ctx.count("rebuild_failed")
    # histories
    tr = Transform(d)
    for _ in range(rnd.randint(2, 6)):
        before = tr.doc
        op = genops.gen_op(sch, rnd, g, tr.doc, slices)
        out, _e = opwork.run_op(tr, op, tr.doc.content.size, 40)
        docs = tr.docs + [tr.doc]
        if out != "ok" or tr.doc is before:
            continue
        judge(ctx, sch, before.content, tr.doc.content, "edit:" + op.name, True)
        if rnd.random() < 0.5:
            try:
                rb = rebuild(sch, tr.doc)
            except Exception:
                continue
            judge(ctx, sch, before.content, rb.content, "edit-rebuilt:" + op.name, False)
            judge(ctx, sch, rb.content, tr.doc.content, "copy-of-result", False)
        if len(docs) > 2 and rnd.random() < 0.3:
            judge(ctx, sch, docs[0].content, tr.doc.content, "history-ends", True)
    # unrelated
    g2 = gen.DocGen(sch, rnd, wide=0.35)
    d2, _ = g2.doc()
    judge(ctx, sch, d.content, d2.content, "unrelated", False)
    # point mutations
    for _ in range(4):
        try:
            q = mutate(sch, rnd, g, p)
            if q == p:
                continue
            m = flat.build(sch.schema, q)
        except Exception:
            ctx.count("mutation_failed")
            continue
        judge(ctx, sch, d.content, m.content, "mutation", False)
        judge(ctx, sch, m.content, d.content, "mutation-rev", False)
    # sub-fragments of the same document (inner nodes share everything)
    kids = d.content.content
    if len(kids) >= 2:
        from prosemirror.model import Fragment

        a = Fragment(kids[:-1])
        b = Fragment(kids[1:])
        judge(ctx, sch, a, d.content, "prefix-of", True)
        judge(ctx, sch, b, d.content, "suffix-of", True)
