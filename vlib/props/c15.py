"""C15 - content filling and wrapper search are sound and complete."""
import itertools

from .. import flat, gen, schemas
from ..refschema import EMPTY, SchemaRejected, TooComplex, ast_print, deriv, first, nullable, run
from . import contentwork as cw

ID = "C15"
LEVEL = "exploration"
RULE = (
    "for every reachable match state (paired with its reference derivative) of probe schemas built "
    "around generated expressions (all trees <= size 3 quick / 4 thorough over a block alphabet with a "
    "non-generatable type, random trees beyond), of random well-founded schemas and of the catalogue: "
    "fill_before(after, to_end, start_index) for all `after` sequences up to length 2 (3 thorough) and "
    "every start index; find_wrapping(target) for every node type, computed and cached; default_type; "
    "create_and_fill with generated partial content. Soundness is checked on the returned nodes, "
    "completeness against a BFS over the reference automaton / type graph. distinct = (schema class, "
    "operation, outcome, filler length / chain length, to_end, start_index>0); trivial = empty filling "
    "for empty `after`."
)
ASSUMPTIONS = [
    "schemas are well-founded (every generatable type has a finite filling)",
    "schemas are default-fillable: the first generatable type of every required position can be created without recursion "
    "(upstream documents this as a schema author's obligation; violating schemas are counted and discarded)",
]
STR = 32


def cases(tier):
    return STR + (2400 if tier == "quick" else 40000)


def floors(tier):
    return {"fill_queries": 20000, "fill_none_confirmed": 500, "wrap_queries": 3000, "wrap_none_confirmed": 300,
            "create_and_fill_queries": 500, "distinct_nontrivial": 60}


def ref_fill_exists(rs, D, after, to_end):
    """Is there a sequence of generatable types g* with D.g*.after alive (accepting if
    to_end)?"""
    seen = {D}
    work = [D]
    while work:
        x = work.pop()
        r = run(x, after)
        if r != EMPTY and (not to_end or nullable(r)):
            return True
        for t in first(x):
            if rs.generatable(t):
                y = deriv(x, t)
                if y != EMPTY and y not in seen:
                    seen.add(y)
                    work.append(y)
    return False


def mk_node(S, rs, name):
    if name == "text":
        return S.text("t")
    t = rs.nodes[name]
    attrs = {a: 1 for a, (has, _d) in t.attrs.items() if not has} or None
    if t.is_leaf:
        return S.nodes[name].create(attrs)
    _, seq = rs.cheapest_completion(t.regex)
    kids = [mk_node(S, rs, s) for s in seq]
    from prosemirror.model import Fragment

    return S.nodes[name].create(attrs, Fragment(kids) if kids else None)


def check_states(ctx, S, rs, tname, sid, alphabet, rnd, maxlen, det0):
    from prosemirror.model import Fragment

    for st, D, path in cw.product(S, rs, tname, limit=60):
        det = {**det0, "type": tname, "path": list(path)}
        # ---- default_type
        try:
            edges = [st.edge(k).type.name for k in range(st.edge_count)]
            dt = st.default_type
        except Exception as e:
            ctx.violation("default_type", "edge/default_type raised %s: %s" % (type(e).__name__, e), det, {"exc": type(e).__name__})
            continue
        expd = next((n for n in edges if rs.generatable(n)), None)
        if (dt.name if dt is not None else None) != expd:
            ctx.violation("default_type", "default_type = %r, first generatable edge is %r (edges %r)" % (dt, expd, edges), det)
        # ---- fill_before
        seqs = [()]
        for L in range(1, maxlen + 1):
            if len(alphabet) ** L <= 40:
                seqs += list(itertools.product(alphabet, repeat=L))
            else:
                seqs += [tuple(rnd.choice(alphabet) for _ in range(L)) for _ in range(25)]
        for after in seqs:
            nodes = [mk_node(S, rs, n) for n in after]
            frag = Fragment(nodes) if nodes else Fragment.empty
            for start in range(len(after) + 1):
                for to_end in (False, True):
                    ctx.count("fill_queries")
                    ctx.ev()
                    rest = after[start:]
                    q = {**det, "after": list(after), "start_index": start, "to_end": to_end}
                    try:
                        F = st.fill_before(frag, to_end, start)
                    except Exception as e:
                        ctx.violation("fill-raised", "fill_before raised %s: %s" % (type(e).__name__, e), q, {"exc": type(e).__name__})
                        continue
                    if F is None:
                        if ref_fill_exists(rs, D, rest, to_end):
                            ctx.violation("fill-incomplete", "fill_before(%r, to_end=%r, start=%d) after %r returned None but a filling by generatable nodes exists" % (list(after), to_end, start, list(path)), q,
                                          {"to_end": to_end, "start": start > 0})
                        else:
                            ctx.count("fill_none_confirmed")
                            ctx.cover([sid, "fill", "none", to_end, start > 0])
                        continue
                    fp = flat.pt_frag(F)
                    names = [c[1] if c[0] == "n" else "text" for c in fp]
                    bad = None
                    for c, nm in zip(fp, names):
                        if nm == "text" or not rs.generatable(nm):
                            bad = "filler node %s is not generatable" % nm
                        elif rs.why_invalid(c) is not None:
                            bad = "filler node %s is itself invalid (%s)" % (nm, rs.why_invalid(c))
                    r = run(D, tuple(names) + tuple(rest))
                    if bad is None and (r == EMPTY or (to_end and not nullable(r))):
                        bad = "state . %r . %r is %s" % (names, list(rest), "dead" if r == EMPTY else "not a valid end")
                    if bad:
                        ctx.violation("fill-unsound", "fill_before(%r, to_end=%r, start=%d) after %r returned %s: %s" % (list(after), to_end, start, list(path), F, bad), q,
                                      {"to_end": to_end, "start": start > 0})
                    else:
                        ctx.cover([sid, "fill", min(len(names), 3), to_end, start > 0], nontrivial=bool(names) or bool(after))
        # ---- find_wrapping
        for target in S.nodes:
            ctx.count("wrap_queries")
            ctx.ev()
            q = {**det, "target": target}
            try:
                w1 = st.find_wrapping(S.nodes[target])
                w2 = st.find_wrapping(S.nodes[target])
                w3 = st.compute_wrapping(S.nodes[target])
            except Exception as e:
                ctx.violation("wrap-raised", "find_wrapping raised %s: %s" % (type(e).__name__, e), q, {"exc": type(e).__name__})
                continue
            n1 = [t.name for t in w1] if w1 is not None else None
            n2 = [t.name for t in w2] if w2 is not None else None
            n3 = [t.name for t in w3] if w3 is not None else None
            if n1 != n2 or n1 != n3:
                ctx.violation("wrap-cache", "find_wrapping(%s): first call %r, cached %r, recomputed %r" % (target, n1, n2, n3), q)
                continue
            k = rs.ref_wrapping(D, target)
            if n1 is None:
                if k is not None:
                    ctx.violation("wrap-incomplete", "find_wrapping(%s) after %r returned None but a chain of length %d exists" % (target, list(path), k), q, {"ref_len": k})
                else:
                    ctx.count("wrap_none_confirmed")
                    ctx.cover([sid, "wrap", "none"])
                continue
            bad = None
            chain = n1
            if not chain:
                if deriv(D, target) == EMPTY:
                    bad = "empty chain but the target does not fit"
            else:
                if deriv(D, chain[0]) == EMPTY:
                    bad = "first wrapper %s not allowed at the position" % chain[0]
                for a, b in zip(chain, chain[1:]):
                    ra = rs.nodes[a].regex
                    d2 = deriv(ra, b)
                    if d2 == EMPTY or not nullable(d2):
                        bad = "%s cannot hold %s as its only child" % (a, b)
                if deriv(rs.nodes[chain[-1]].regex, target) == EMPTY:
                    bad = "innermost wrapper %s does not accept %s as first child" % (chain[-1], target)
                for wn in chain:
                    wt = rs.nodes[wn]
                    if wt.is_leaf or wt.is_text or wt.required_attrs:
                        bad = "wrapper %s is a leaf or needs attributes" % wn
            if bad is None and k is None:
                bad = "reference finds no chain at all"
            if bad is None and len(chain) != k:
                bad = "chain length %d, a shortest chain has length %d" % (len(chain), k)
            if bad:
                ctx.violation("wrap-unsound", "find_wrapping(%s) after %r = %r: %s" % (target, list(path), chain, bad), q, {"len": len(chain)})
            else:
                ctx.cover([sid, "wrap", len(chain)], nontrivial=len(chain) > 0)


def check_create_and_fill(ctx, sch_S, rs, sid, rnd, det0, tries=6):
    from prosemirror.model import Fragment

    S = sch_S
    for tname, t in rs.nodes.items():
        if t.is_text or t.required_attrs:
            continue
        for _ in range(tries):
            # partial content: a random walk that may or may not be completable
            D = t.regex
            seq = []
            for _ in range(rnd.randint(0, 3)):
                f = sorted(x for x in first(D) if rs.minsize()[x] != float("inf"))
                if not f:
                    break
                nm = rnd.choice(f) if rnd.random() < 0.7 else rnd.choice([n for n in rs.nodes if n != rs.top])
                seq.append(nm)
                D = deriv(D, nm) if D != EMPTY else EMPTY
                if D == EMPTY:
                    break
            if rnd.random() < 0.4 and seq:
                seq = seq[rnd.randint(0, len(seq) - 1):]  # drop a prefix so that a prefix filler is needed
            nodes = [mk_node(S, rs, n) for n in seq]
            ctx.count("create_and_fill_queries")
            ctx.ev()
            q = {**det0, "type": tname, "content": seq}
            try:
                res = S.nodes[tname].create_and_fill(None, Fragment(nodes) if nodes else None)
            except Exception as e:
                ctx.violation("create_and_fill-raised", "create_and_fill raised %s: %s" % (type(e).__name__, e), q, {"exc": type(e).__name__})
                continue
            # reference: exists generatable pre, post with pre.content.post accepted?
            exists = False
            seen = {t.regex}
            work = [t.regex]
            while work and not exists:
                x = work.pop()
                r = run(x, seq)
                if r != EMPTY and ref_fill_exists(rs, r, (), True):
                    exists = True
                    break
                for g_ in first(x):
                    if rs.generatable(g_):
                        y = deriv(x, g_)
                        if y != EMPTY and y not in seen:
                            seen.add(y)
                            work.append(y)
            if res is None:
                if exists and not seq:
                    ctx.violation("create_and_fill-incomplete", "%s.create_and_fill() returned None though a filling exists" % tname, q)
                elif exists:
                    # the statement only says "or nothing" for given content (the library fills
                    # the prefix greedily, without backtracking): counted, not judged
                    ctx.count("create_and_fill_none_although_fillers_exist")
                else:
                    ctx.cover([sid, "caf", "none"])
                continue
            p = flat.pt(res)
            why = rs.why_invalid(p)
            kids = [c[1] if c[0] == "n" else "text" for c in p[4]]
            # content in order as a subsequence, rest generatable
            it = iter(range(len(kids)))
            pos = []
            ok = True
            j = 0
            used = set()
            for nm in seq:
                while j < len(kids) and kids[j] != nm:
                    j += 1
                if j == len(kids):
                    ok = False
                    break
                used.add(j)
                j += 1
            rest_ok = all(rs.generatable(kids[j2]) for j2 in range(len(kids)) if j2 not in used)
            if why is not None or not ok or not rest_ok:
                ctx.violation("create_and_fill-unsound", "%s.create_and_fill(content=%r) = %s: %s" % (
                    tname, seq, res, why or ("content not contained in order" if not ok else "non-generatable filler")), q)
            else:
                ctx.cover([sid, "caf", len(kids) - len(seq) > 0, len(seq)], nontrivial=len(kids) > len(seq))


def case(ctx, rnd, i):
    maxlen = 2 if ctx.tier == "quick" else 3
    msize = 3 if ctx.tier == "quick" else 4
    alphabet = ["a", "b", "c", "r", "x"]
    if i < STR:
        k = 0
        for size in range(1, msize + 1):
            for ast in gen.all_asts(cw.BLOCK_NAMES, size):
                if k % STR == i:
                    _probe(ctx, ast, rnd, maxlen, alphabet)
                k += 1
        return
    i -= STR
    r = i % 3
    if r == 0:
        if rnd.random() < 0.35:
            # a long sequence (8-14 terms, each possibly starred / optional / repeated): automata
            # with more than ten states, where state numbering has two digits
            terms = []
            for _ in range(rnd.randint(8, 14)):
                t_ = ("name", rnd.choice(["a", "b", "c", "g", "gg", "r"] if rnd.random() < 0.9 else ["a", "b"]))
                q_ = rnd.random()
                terms.append(("star", t_) if q_ < 0.3 else ("opt", t_) if q_ < 0.45 else ("plus", t_) if q_ < 0.55 else t_)
            ast = ("seq", tuple(terms))
            ctx.count("long_sequence_probes")
        else:
            ast = gen.bounded_ast(rnd, cw.BLOCK_NAMES, rnd.randint(4, 9), 30)
        _probe(ctx, ast, rnd, maxlen, alphabet)
        return
    if r == 1:
        sch = schemas.wrap_schema(rnd) if rnd.random() < 0.6 else schemas.random_schema(rnd)
        if sch is None:
            ctx.count("schema_gen_failed")
            return
        sid = "random"
        det0 = {"schema_spec": _plain(sch.spec)}
    else:
        sch = schemas.get(rnd.choice(schemas.ids()))
        sid = sch.id
        det0 = {"schema": sch.id}
    S, rs = sch.schema, sch.ref
    names = [n for n in rs.nodes if rs.minsize()[n] != float("inf")]
    conts = [n for n, t in rs.nodes.items() if not t.is_leaf and not t.is_text]
    for tn in [rs.top] + rnd.sample(conts, min(2, len(conts))):
        check_states(ctx, S, rs, tn, sid, names if len(names) <= 5 else rnd.sample(names, 5), rnd, min(maxlen, 2), det0)
    check_create_and_fill(ctx, S, rs, sid, rnd, det0, tries=3)


def _plain(spec):
    def clean(v):
        if isinstance(v, dict):
            return {k: clean(x) for k, x in v.items() if not callable(x)}
        return v
    return clean(spec)


def _probe(ctx, ast, rnd, maxlen, alphabet):
    expr = ast_print(ast)
    # x may contain itself through the group g2, so that wrapper chains exist
    spec = cw.probe_spec(expr, extra={"w": {"content": "x+"}, "v": {"content": "w"}, "doc": {"content": "(x | a | b | c | r | w | v)*"}})
    S, rs = cw.build(spec)
    if isinstance(rs, TooComplex):
        ctx.count("probe_too_complex")
        return
    if isinstance(rs, SchemaRejected) or isinstance(S, BaseException):
        ctx.count("probe_rejected")
        return
    if not rs.well_founded():
        ctx.count("probe_not_well_founded")
        return
    if rs.strong_dead_ends:
        ctx.count("probe_dead_end_behind_loop")
        return
    if not schemas.default_fillable(S):
        ctx.count("probe_not_default_fillable")
        return
    ctx.count("probe_schemas")
    det0 = {"expr": expr}
    if ctx.counters["probe_schemas"] % 200 == 1:
        ctx.sample(det0)
    check_states(ctx, S, rs, "x", "probe", alphabet, rnd, maxlen, det0)
    if rnd.random() < 0.3:
        check_states(ctx, S, rs, "doc", "probe", ["x", "w", "v", "a"], rnd, 1, det0)
        check_create_and_fill(ctx, S, rs, "probe", rnd, det0, tries=2)
