"""C08 - position maps and mappings obey the documented mapping algebra."""
import itertools

from .. import flat, genops, refmap
from . import opwork

ID = "C08"
LEVEL = "exploration"
RULE = (
    "part A: all step maps with up to 3 ranges (gap to the previous range in {0,1,2}, old/new sizes in "
    "{0,1,2}; exhaustive in both tiers), plain "
    "and inverted, every position 0..end+2, both sides: map, map_result flags, recover, touches, "
    "for_each, monotonicity, invert, mirror round trip with and without registration. part B: mappings "
    "built from the maps of random transform histories and random small maps: map/map_result vs the "
    "left fold, slice at every (a,b), copy, append_map/append_mapping/append_mapping_inverted/invert "
    "(map list and mirror table), mirrored lookups vs the documented jump rule. part C: rebasing "
    "constructions [inv(s), t.., s'] with the mirror rebaseSteps registers, judged by token tracking. "
    "distinct = (part, number of ranges, inverted, adjacency pattern, kind of position hit)."
)
ASSUMPTIONS = [
    "deleted_before/deleted_after are not judged when the deciding range has old size 0 (the library reports DEL_AFTER for a pure insertion, upstream convention)",
]
SIZES = (0, 1, 2)
GAPS = (0, 1, 2)


def EXHAUSTIVE(tier):
    return "all step maps with <= 3 ranges, gaps in {0,1,2}, old/new in {0,1,2}, both inverted flags, every position 0..end+2, both sides"


def all_maps(k):
    per = list(itertools.product(GAPS, SIZES, SIZES))
    for combo in itertools.product(per, repeat=k):
        ranges = []
        end = 0
        for (gap, o, n) in combo:
            s = end + gap
            ranges += [s, o, n]
            end = s + o
        yield ranges


_ENUM = None


def enum_maps():
    global _ENUM
    if _ENUM is None:
        _ENUM = [m for k in (1, 2) for m in all_maps(k)]
    return _ENUM


N3 = 27 ** 3


def map3(idx):
    per = list(itertools.product(GAPS, SIZES, SIZES))
    combo = [per[(idx // (27 ** j)) % 27] for j in range(3)]
    ranges = []
    end = 0
    for (gap, o, n) in combo:
        s = end + gap
        ranges += [s, o, n]
        end = s + o
    return ranges


CHUNK = 12


def cases(tier):
    # part A chunks, then part B/C cases
    a = (len(enum_maps()) + CHUNK - 1) // CHUNK
    if tier == "quick":
        return a + (N3 + CHUNK - 1) // CHUNK + 4000
    return a + (N3 + CHUNK - 1) // CHUNK + 80000


def floors(tier):
    return {"stepmaps": 700, "mappings": 300, "rebase_tracked_tokens": 500, "mirror_roundtrips": 5000, "distinct_nontrivial": 60}


def case(ctx, rnd, i):
    a = (len(enum_maps()) + CHUNK - 1) // CHUNK
    if i < a:
        for ranges in enum_maps()[i * CHUNK:(i + 1) * CHUNK]:
            check_stepmap(ctx, ranges)
        return
    i -= a
    b = (N3 + CHUNK - 1) // CHUNK
    if i < b:
        for idx in range(i * CHUNK, min(N3, (i + 1) * CHUNK)):
            check_stepmap(ctx, map3(idx))
        return
    i -= b
    if i % 3 == 2:
        check_rebase(ctx, rnd)
    else:
        check_mapping(ctx, rnd)
    if i % 4 == 0:
        check_large_map(ctx, rnd)


def check_large_map(ctx, rnd):
    """Maps over long documents: ranges of 10^4 .. 3*10^5 positions, sampled positions around the
    range ends and at offsets around 2^16 and 2^17 inside them (recover values are packed
    numbers; nothing may depend on an offset being small)."""
    from prosemirror.transform import Mapping, StepMap

    ranges = []
    at = rnd.randint(0, 500000)
    for _ in range(rnd.randint(1, 2)):
        old, new = rnd.choice([(rnd.randint(66000, 300000), rnd.randint(0, 5)), (rnd.randint(0, 5), rnd.randint(66000, 300000)),
                               (rnd.randint(66000, 200000), rnd.randint(66000, 200000)), (rnd.randint(10000, 60000), 0)])
        ranges += [at, old, new]
        at += old + rnd.randint(1, 100000)
    ctx.count("large_stepmaps")
    for inverted in (False, True):
        m = StepMap(list(ranges)) if not inverted else StepMap(list(ranges)).invert()
        tr = refmap.normal_ranges(ranges, inverted)
        inv = m.invert()
        det = {"ranges": list(ranges), "inverted": inverted}
        pts = set()
        for (st, o, nn) in tr:
            for off in (0, 1, 2, 65535, 65536, 65537, 131071, 131072, 131073, o // 2, o - 1, o, o + 1):
                if 0 <= off <= o + 1:
                    pts.add(st + off)
            pts.add(max(0, st - 1))
        for pos in sorted(pts):
            for assoc in (-1, 1):
                ctx.ev()
                r = refmap.map_pos(tr, pos, assoc)
                try:
                    got = m.map_result(pos, assoc)
                    rt = Mapping([m, inv], [0, 1]).map(pos, assoc)
                except Exception as e:
                    ctx.violation("stepmap-raised", "%s: %s on a large map" % (type(e).__name__, e), det, {"exc": type(e).__name__, "large": True})
                    return
                if got.pos != r.pos or bool(got.deleted) != bool(r.deleted):
                    ctx.violation("map", "large map %r%s: map_result(%d,%d) = pos %r deleted %r, reference %d %r" % (ranges, " inverted" if inverted else "", pos, assoc, got.pos, got.deleted, r.pos, r.deleted),
                                  det, {"large": True})
                    return
                if rt != pos and len(tr) == 1:
                    ctx.violation("mirror-roundtrip", "large map %r%s: Mapping([M, M.invert()], mirror 0<->1).map(%d,%d) = %r, expected %d (offset %d from the range start)"
                                  % (ranges, " inverted" if inverted else "", pos, assoc, rt, pos, pos - tr[0][0]), det, {"large": True, "adjacent": False})
                    return
    ctx.cover(["A-large", len(ranges) // 3], nontrivial=True)


# ------------------------------------------------------------------ part A


def _flags(mr):
    return (mr.deleted, mr.deleted_before, mr.deleted_after, mr.deleted_across)


def check_stepmap(ctx, ranges):
    from prosemirror.transform import Mapping, StepMap

    ctx.count("stepmaps")
    for inverted in (False, True):
        m = StepMap(list(ranges)) if not inverted else StepMap(list(ranges)).invert()
        det = {"ranges": list(ranges), "inverted": inverted}
        nr = len(ranges) // 3

        def bad(oracle, msg, **mech):
            ctx.violation(oracle, msg + "  [StepMap(%r)%s]" % (ranges, ".invert()" if inverted else ""), det, {"n": nr, **mech})

        try:
            if list(m.ranges) != list(ranges) or bool(m.inverted) != inverted:
                bad("invert-repr", "invert() does not keep the ranges / flip the flag")
                continue
            tr = refmap.normal_ranges(ranges, inverted)
            inv = m.invert()
            tr_inv = refmap.normal_ranges(ranges, not inverted)
            last = max([s + o for (s, o, n) in tr] + [0])
            adjacent = any(tr[k][0] + tr[k][1] == tr[k + 1][0] for k in range(len(tr) - 1))
            # for_each
            fe = []
            m.for_each(lambda a, b, c, d: fe.append((a, b, c, d)))
            exp = refmap.for_each_ref(tr)
            if fe != exp:
                bad("for_each", "for_each = %r, reference %r" % (fe, exp))
            else:
                for (a, b, c, d) in fe:
                    if m.map(a, -1) != c or m.map(b, 1) != d:
                        # only demanded when this range is not shadowed by an adjacent earlier one
                        first_hit_a = refmap.map_pos(tr, a, -1)
                        first_hit_b = refmap.map_pos(tr, b, 1)
                        if first_hit_a.pos == c and first_hit_b.pos == d:
                            bad("for_each-map", "for_each range (%d,%d,%d,%d) disagrees with map" % (a, b, c, d))
            prev = {-1: None, 1: None}
            for pos in range(0, last + 3):
                for assoc in (-1, 1):
                    ctx.ev()
                    r = refmap.map_pos(tr, pos, assoc)
                    got = m.map(pos, assoc)
                    if got != r.pos:
                        bad("map", "map(%d,%d) = %r, documented rule gives %d" % (pos, assoc, got, r.pos), adjacent=adjacent)
                        continue
                    mr = m.map_result(pos, assoc)
                    if mr.pos != r.pos:
                        bad("map_result", "map_result(%d,%d).pos = %r, rule gives %d" % (pos, assoc, mr.pos, r.pos))
                    zero_old = r.inside and tr[r.index][1] == 0
                    if zero_old:
                        expf = (False, None, None, False)
                        gotf = (mr.deleted, None, None, mr.deleted_across)
                    else:
                        expf = (r.deleted, r.before, r.after, r.across)
                        gotf = _flags(mr)
                    if gotf != expf:
                        bad("deleted-flags", "map_result(%d,%d) flags (deleted,before,after,across) = %r, rule gives %r" % (pos, assoc, gotf, expf))
                    elif r.inside and not zero_old and not adjacent:
                        # token picture: is the token on that side inside a deleted range?
                        def deleted_tok(i):
                            return any(s <= i < s + o for (s, o, _n) in tr)
                        if mr.deleted_after != deleted_tok(pos) or mr.deleted_before != deleted_tok(pos - 1):
                            bad("deleted-token-picture", "map_result(%d,%d) before/after flags disagree with the token picture" % (pos, assoc))
                    if (mr.recover is None) != r.recover_none:
                        bad("recover-none", "map_result(%d,%d).recover = %r, should %sbe None" % (pos, assoc, mr.recover, "" if r.recover_none else "not "))
                    elif mr.recover is not None:
                        back = inv.recover(mr.recover)
                        if back != pos:
                            bad("recover", "inverse.recover(map_result(%d,%d).recover) = %r" % (pos, assoc, back))
                        for q in range(0, last + 3):
                            s, o, _n = tr[r.index]
                            expt = s <= q <= s + o
                            if m.touches(q, mr.recover) != expt:
                                bad("touches", "touches(%d, recover of range %d) = %r, reference %r" % (q, r.index, not expt, expt))
                                break
                    if prev[assoc] is not None and got < prev[assoc]:
                        bad("monotonic", "map(%d,%d)=%d < map(%d,%d)=%d" % (pos, assoc, got, pos - 1, assoc, prev[assoc]))
                    prev[assoc] = got
                    # inverse maps like the reference of the swapped triples
                    ri = refmap.map_pos(tr_inv, pos, assoc)
                    gi = inv.map(pos, assoc)
                    if gi != ri.pos:
                        bad("invert-map", "invert().map(%d,%d) = %r, reference %d" % (pos, assoc, gi, ri.pos))
                    # mirror round trip
                    mp = Mapping()
                    mp.append_map(m)
                    mp.append_map(inv, 0)
                    mp2 = Mapping([m, inv], [0, 1])
                    ctx.count("mirror_roundtrips")
                    rt, rt2 = mp.map(pos, assoc), mp2.map(pos, assoc)
                    if rt != pos or rt2 != pos:
                        # structural facts for the known-finding classifier
                        k = r.index
                        later_pure_deletion = False
                        if k is not None:
                            for j in range(len(tr) - 1):
                                if tr[j][0] + tr[j][1] == tr[j + 1][0] and tr[j + 1][2] == 0 and tr[j + 1][1] > 0 \
                                        and pos == tr[j + 1][0] + tr[j + 1][1] and assoc > 0:
                                    later_pure_deletion = True
                        bad("mirror-roundtrip", "Mapping([M, M.invert()], mirror 0<->1).map(%d,%d) = %r/%r, expected %d" % (pos, assoc, rt, rt2, pos),
                            adjacent=adjacent, at_end_of_adjacent_pure_deletion=later_pure_deletion, assoc=assoc)
                    plain = Mapping([m, inv]).map(pos, assoc)
                    lossy = refmap.fold([tr, refmap.normal_ranges(ranges, not inverted)], pos, assoc)
                    # the second map applies to the output of the first
                    if plain != lossy:
                        bad("unmirrored-fold", "Mapping([M, M.invert()]).map(%d,%d) = %r, fold gives %d" % (pos, assoc, plain, lossy))
                    kind = "inside" if r.inside and r.across else "edge" if r.inside else "outside"
                    ctx.cover(["A", nr, inverted, adjacent, kind, zero_old, assoc], nontrivial=r.inside)
        except Exception as e:
            bad("stepmap-raised", "%s: %s" % (type(e).__name__, e), exc=type(e).__name__)


# ------------------------------------------------------------------ part B


def pairs_of(mirror):
    if not mirror:
        return set()
    return {frozenset((mirror[k], mirror[k + 1])) for k in range(0, len(mirror), 2)}


def ref_mapping_map(maps_tr, pairs, frm, to, pos, assoc):
    """Documented Mapping.map with mirrors: when a position falls in the replaced part of map
    i (not at its kept end) and map i has a registered mirror j with i < j < to, skip ahead
    and restore the position relative to the mirrored range in map j's output."""
    mirror_of = {}
    for pr in pairs:
        a, b = tuple(pr) if len(pr) == 2 else (next(iter(pr)),) * 2
        mirror_of.setdefault(a, b)
        mirror_of.setdefault(b, a)
    deleted = False
    across = False
    i = frm
    while i < to:
        tr = maps_tr[i]
        r = refmap.map_pos(tr, pos, assoc)
        if not r.recover_none:
            j = mirror_of.get(i)
            if j is not None and i < j < to:
                out = refmap.for_each_ref(maps_tr[j])
                pos = out[r.index][2] + r.offset
                i = j + 1
                continue
        if r.inside and tr[r.index][1] > 0:
            deleted = deleted or r.deleted
            across = across or r.across
        pos = r.pos
        i += 1
    return pos, deleted, across


def random_small_map(rnd):
    from prosemirror.transform import StepMap

    k = rnd.randint(0, 2)
    ranges = []
    end = rnd.randint(0, 3)
    for _ in range(k):
        s = end + rnd.choice(GAPS)
        o, n = rnd.choice(SIZES), rnd.choice(SIZES)
        ranges += [s, o, n]
        end = s + o
    m = StepMap(ranges)
    return m.invert() if rnd.random() < 0.3 else m


def history_maps(ctx, rnd):
    """Maps (and documents) of a random transform history."""
    from prosemirror.transform import Transform

    st = opwork.setup_history(ctx, rnd, ids=["list", "basic", "table", "iso"])
    if st is None:
        return [], None
    sch, g, d, p, slices = st
    tr = Transform(d)
    for _ in range(rnd.randint(1, 5)):
        op = genops.gen_op(sch, rnd, g, tr.doc, slices)
        opwork.run_op(tr, op, tr.doc.content.size, 40)
    return list(tr.mapping.maps), tr


def trs(maps):
    return [refmap.normal_ranges(list(m.ranges), bool(m.inverted)) for m in maps]


def check_mapping(ctx, rnd):
    from prosemirror.transform import Mapping

    ctx.count("mappings")
    maps = []
    if rnd.random() < 0.5:
        maps, _ = history_maps(ctx, rnd)
    while len(maps) < 2 or (len(maps) < 6 and rnd.random() < 0.5):
        maps.insert(rnd.randint(0, len(maps)), random_small_map(rnd))
    n = len(maps)
    # mirror registrations as rebasing produces them: pairs (i, j), i < j, j's map is the
    # inverse of i's map, disjoint indices
    mirror = []
    used = set()
    full = list(maps)
    for _ in range(rnd.randint(0, 2)):
        i = rnd.randrange(len(full))
        if i in used:
            continue
        j = rnd.randint(i + 1, len(full))
        full.insert(j, full[i].invert())
        used = {u + 1 if u >= j else u for u in used} | {i, j}
        mirror = [x + 1 if x >= j else x for x in mirror] + [i, j]
    maps = full
    n = len(maps)
    det = {"maps": [("-" if m.inverted else "") + str(list(m.ranges)) for m in maps], "mirror": list(mirror)}

    def bad(oracle, msg, **mech):
        ctx.violation(oracle, msg, det, {"nmaps": n, "mirrored": bool(mirror), **mech})

    try:
        mp = Mapping()
        for k, m in enumerate(maps):
            mir = None
            for q in range(0, len(mirror), 2):
                if mirror[q + 1] == k:
                    mir = mirror[q]
            mp.append_map(m, mir)
        mp_ctor = Mapping(list(maps), list(mirror) if mirror else None)
        T = trs(maps)
        P = pairs_of(mirror)
        if pairs_of(mp.mirror) != P or [id(x) for x in mp.maps] != [id(x) for x in maps]:
            bad("append_map", "append_map built maps/mirror %r" % (mp.mirror,))
            return
        for k in range(n):
            em = None
            for pr in P:
                if k in pr:
                    em = next(iter(pr - {k}))
            if mp.get_mirror(k) != em:
                bad("get_mirror", "get_mirror(%d) = %r, registered %r" % (k, mp.get_mirror(k), em))
        top = max([s + o for t in T for (s, o, _n) in t] + [4]) + 2
        for a in range(n + 1):
            for b in range(a, n + 1):
                sl = mp.slice(a, b)
                for pos in range(0, top, 1 if top < 12 else 2):
                    for assoc in (-1, 1):
                        ctx.ev()
                        ep, edel, eacross = ref_mapping_map(T, P, a, b, pos, assoc)
                        got = sl.map(pos, assoc)
                        if got != ep:
                            bad("mapping-map", "slice(%d,%d).map(%d,%d) = %r, reference %d" % (a, b, pos, assoc, got, ep), sliced=(a, b) != (0, n))
                            return
                        mr = sl.map_result(pos, assoc)
                        if mr.pos != ep or mr.deleted != edel or mr.deleted_across != eacross:
                            bad("mapping-map_result", "slice(%d,%d).map_result(%d,%d) = (%r,%r,%r), reference (%d,%r,%r)"
                                % (a, b, pos, assoc, mr.pos, mr.deleted, mr.deleted_across, ep, edel, eacross))
                            return
                        if not mirror:
                            f = refmap.fold(T[a:b], pos, assoc)
                            if got != f:
                                bad("mapping-fold", "unmirrored mapping differs from the left fold")
                                return
        # nested slices and the 4-argument constructor use absolute indices
        for _ in range(6):
            a = rnd.randint(0, n)
            b = rnd.randint(a, n)
            c = rnd.randint(0, n)
            e = rnd.randint(c, n)
            for sl, nm in ((mp.slice(a, b).slice(c, e), "slice(%d,%d).slice(%d,%d)" % (a, b, c, e)),
                           (Mapping(list(maps), list(mirror) if mirror else None, c, e), "Mapping(maps,mirror,%d,%d)" % (c, e)),
                           (mp.slice(a, b).slice(c), "slice(%d,%d).slice(%d)" % (a, b, c))):
                hi = e if "slice(%d)" % c not in nm else n
                for pos in range(0, top, 2):
                    ep, _d, _a = ref_mapping_map(T, P, c, hi, pos, 1)
                    if sl.map(pos, 1) != ep:
                        bad("mapping-nested-slice", "%s.map(%d,1) = %r, reference over maps[%d:%d] gives %d" % (nm, pos, sl.map(pos, 1), c, hi, ep))
                        break
        if mp_ctor.map(3, 1) != mp.map(3, 1) or mp_ctor.map(1, -1) != mp.map(1, -1):
            bad("mapping-ctor", "Mapping(maps, mirror) and append_map disagree")
        ctx.cover(["B", n, bool(mirror), len(P)], nontrivial=True)
        # copy
        cp = mp.copy()
        before_maps, before_mirror = list(mp.maps), list(mp.mirror or [])
        # ... appended to with a mirror registration (a copy must own its mirror table too)
        free = [k for k in range(n) if not any(k in pr for pr in P)]
        cp.append_map(random_small_map(rnd), rnd.choice(free) if free and rnd.random() < 0.7 else None)
        if list(mp.maps) != before_maps or list(mp.mirror or []) != before_mirror or len(cp.maps) != n + 1:
            bad("copy", "appending to a copy changed the original (or the copy)")
        # and the other way round: the original grows, an earlier copy must not
        cp2 = mp.copy()
        orig = Mapping(list(maps), list(mirror) if mirror else None)
        cp3 = orig.copy()
        snap3 = (list(cp3.maps), list(cp3.mirror or []))
        orig.append_map(random_small_map(rnd), rnd.choice(free) if free else None)
        if (list(cp3.maps), list(cp3.mirror or [])) != snap3:
            bad("copy", "appending to a mapping changed a copy taken earlier")
        ctx.count("copy_independence_checks")
        del cp2
        # appending to a truncated view (slice with to < len, or a copy of one): the new map goes
        # to the end of the map list, the view then reaches to the end, and a mirror registered
        # with the append belongs to the NEW map
        if n >= 2:
            t_ = rnd.randint(0, n - 1)
            f_ = rnd.randint(0, t_)
            view = Mapping(list(maps), list(mirror) if mirror else None, f_, t_)
            if rnd.random() < 0.5:
                view = view.copy()
            k_ = rnd.choice(free) if free and rnd.random() < 0.8 else None
            view.append_map(random_small_map(rnd), k_)
            want = P | ({frozenset((k_, n))} if k_ is not None else set())
            if len(view.maps) != n + 1 or view.from_ != f_ or view.to != n + 1 or pairs_of(view.mirror) != want:
                bad("append-to-view", "append_map(m, %r) on a view [%d,%d) of %d maps gives from=%r to=%r, %d maps, mirror pairs %r; expected to=%d and pairs %r"
                    % (k_, f_, t_, n, view.from_, view.to, len(view.maps), sorted(map(sorted, pairs_of(view.mirror))), n + 1, sorted(map(sorted, want))))
            ctx.count("append_to_view_checks")
        # append_mapping / append_mapping_inverted / invert
        other_maps = [random_small_map(rnd) for _ in range(rnd.randint(1, 3))]
        om = Mapping()
        omirror = []
        if len(other_maps) >= 2 and rnd.random() < 0.6:
            other_maps[-1] = other_maps[0].invert()
            omirror = [0, len(other_maps) - 1]
        for k, m in enumerate(other_maps):
            om.append_map(m, omirror[0] if omirror and k == omirror[1] else None)
        osnap = ([id(x) for x in om.maps], list(om.mirror or []))
        for mode in ("append_mapping", "append_mapping_inverted", "invert"):
            base = mp.copy()
            prefix = [id(x) for x in base.maps]
            L = len(other_maps)
            if mode == "append_mapping":
                base.append_mapping(om)
                exp_maps = [(list(m.ranges), bool(m.inverted)) for m in maps + other_maps]
                exp_pairs = P | {frozenset((n + x for x in pr)) for pr in pairs_of(omirror)}
                res = base
            elif mode == "append_mapping_inverted":
                base.append_mapping_inverted(om)
                exp_maps = [(list(m.ranges), bool(m.inverted)) for m in maps] + \
                           [(list(m.ranges), not m.inverted) for m in reversed(other_maps)]
                exp_pairs = P | {frozenset((n + L - 1 - x for x in pr)) for pr in pairs_of(omirror)}
                res = base
            else:
                res = om.invert()
                exp_maps = [(list(m.ranges), not m.inverted) for m in reversed(other_maps)]
                exp_pairs = {frozenset((L - 1 - x for x in pr)) for pr in pairs_of(omirror)}
                prefix = []
            got_maps = [(list(m.ranges), bool(m.inverted)) for m in res.maps]
            if got_maps != exp_maps:
                bad(mode, "%s produced maps %r, reference %r" % (mode, got_maps, exp_maps))
            elif pairs_of(res.mirror) != exp_pairs:
                bad(mode + "-mirror", "%s produced mirror pairs %r, reference %r" % (mode, sorted(map(sorted, pairs_of(res.mirror))), sorted(map(sorted, exp_pairs))))
            elif [id(x) for x in res.maps[:len(prefix)]] != prefix:
                bad(mode, "%s did not only append" % mode)
            elif res.to != len(res.maps) or res.from_ != 0:
                bad(mode, "%s left from/to = %r/%r for %d maps" % (mode, res.from_, res.to, len(res.maps)))
            if ([id(x) for x in om.maps], list(om.mirror or [])) != osnap:
                bad(mode, "%s changed its argument" % mode)
            ctx.count("compositions")
    except Exception as e:
        import traceback
        bad("mapping-raised", "%s: %s | %s" % (type(e).__name__, e, traceback.format_exc()[-400:]), exc=type(e).__name__)


# ------------------------------------------------------------------ part C


def check_rebase(ctx, rnd):
    """[inv(s1..sn) reversed, t1..tm, s'1..s'n] with mirrors (n-1-k <-> n+m+k): every token of
    the document after s that survives t is found at the mapped position in the final
    document, including tokens inside content s inserted (restored through the mirror)."""
    from prosemirror.transform import Mapping, ReplaceStep, Transform

    st = opwork.setup_history(ctx, rnd, ids=["list", "basic", "iso", "table"])
    if st is None:
        return
    sch, g, d, p, slices = st
    leaf = sch.leaf
    kinds = ["insert", "replace", "delete", "replace_with", "delete_range", "replace_range"]
    A = Transform(d)
    for _ in range(rnd.randint(1, 2)):
        opwork.run_op(A, genops.gen_op(sch, rnd, g, A.doc, slices, kinds), A.doc.content.size, 40)
    B = Transform(d)
    for _ in range(rnd.randint(1, 2)):
        opwork.run_op(B, genops.gen_op(sch, rnd, g, B.doc, slices, kinds), B.doc.content.size, 40)
    if not A.steps or not B.steps or not all(isinstance(s, ReplaceStep) for s in A.steps + B.steps):
        ctx.count("rebase_skipped")
        return
    n, m = len(A.steps), len(B.steps)
    # rebase A's steps over B
    R = Transform(B.doc)
    mapping = Mapping()
    for k in range(n - 1, -1, -1):
        mapping.append_map(A.steps[k].get_map().invert())
    for t in B.steps:
        mapping.append_map(t.get_map())
    dropped = False
    mt = n
    for k in range(n):
        try:
            mapped = A.steps[k].map(mapping.slice(mt))
        except Exception as e:
            ctx.violation("rebase-raised", "Step.map over a mirrored mapping raised %s: %s" % (type(e).__name__, e),
                          {"doc": str(d)[:300]}, {"exc": type(e).__name__})
            return
        mt -= 1
        if mapped is not None:
            try:
                res = R.maybe_step(mapped)
            except Exception:
                res = None
            if res is not None and res.doc is not None:
                mapping.append_map(mapped.get_map(), mt)
                continue
        dropped = True
        break
    if dropped:
        ctx.count("rebase_dropped_step")
        return
    ctx.count("rebases")
    old = flat.toks(flat.pt(A.doc)[4], leaf)
    new = flat.toks(flat.pt(R.doc)[4], leaf)
    # which tokens of A.doc survive: trace each through the reference model of the pieces
    TA = [refmap.normal_ranges(list(s.get_map().ranges), False) for s in A.steps]
    TB = [refmap.normal_ranges(list(s.get_map().ranges), False) for s in B.steps]
    det = {"doc": str(d)[:300], "A": [s.to_json() for s in A.steps], "B": [s.to_json() for s in B.steps],
           "mirror": list(mapping.mirror or [])}
    tracked = 0
    for i, t in enumerate(old):
        # position i in A.doc -> back through A (reference, token-wise), then forward through B
        pos = i
        origin = "doc"
        for k in range(n - 1, -1, -1):
            inv = refmap.normal_ranges(list(A.steps[k].get_map().ranges), True)
            hit = [(s, o) for (s, o, _n) in inv if s <= pos < s + o]
            if hit:
                origin = "inserted"
                break
            pos = refmap.map_pos(inv, pos, 1).pos
        if origin == "doc":
            alive = True
            for tb in TB:
                if not refmap.token_outside(tb, pos):
                    alive = False
                    break
                pos = refmap.map_pos(tb, pos, 1).pos
            if not alive:
                continue
        try:
            j = mapping.map(i, 1)
        except Exception as e:
            ctx.violation("rebase-raised", "rebase mapping.map(%d) raised %s: %s" % (i, type(e).__name__, e), det, {"exc": type(e).__name__})
            return
        ctx.ev()
        u = new[j] if 0 <= j < len(new) else None
        if u != t:
            if origin == "inserted" and (m > 1 or n > 1):
                # content inserted by s and later touched by another step of the same side
                # has no single-step mirror; only judge the single-step construction
                continue
            ctx.violation("rebase-token", "token %d %r of the document after s (%s) is at %d in the rebased document, which holds %r"
                          % (i, t, origin, j, u), det, {"origin": origin, "n": n, "m": m})
            return
        tracked += 1
    ctx.count("rebase_tracked_tokens", tracked)
    ctx.cover(["C", n, m, sch.id], nontrivial=True)
