"""C11 - replace-family edits always succeed, stay valid and keep surrounding content."""
from .. import flat, gen, genops, gensteps, schemas
from ..budget import StepBudgetExceeded
from ..monitors import step as stepmon
from . import opwork
from .common import describe_doc, other_docs, pick_schema

ID = "C11"
LEVEL = "exploration"
RULE = (
    "case = one valid document + slices of every open depth cut from 2 other documents (plus closed "
    "single nodes and marked inline content); ~45 operations, each on a fresh Transform: replace, "
    "replace_with, insert, delete, replace_range, replace_range_with, delete_range and "
    "replace_step(doc,from,to,slice) at uniform and depth-compatible (from,to). Totality class "
    "(basic, list, strict, title, iso, table, isolist, topmarks and the two other schemas of the upstream "
    "tests, structure and fixed): any exception or exceeded LINE budget is a violation. Every schema (also structure, fixed, random well-founded): result valid; "
    "text before/after the range unchanged incl. marks; text in between is an in-order subsequence of "
    "the slice's text; leaves before/after embed in order, extra leaves are slice leaves or default "
    "fillers. distinct = (schema, op, depth(from), depth(to), open sides, emitted step kinds, range "
    "expanded); trivial = closed slice fitting trivially at same-parent positions."
)
ASSUMPTIONS = [
    "payload nodes are valid by the reference; slices are cut from valid documents",
    "termination is decided by a LINE budget of 20000*(tokens(doc)+tokens(slice)+10) on transform/replace.py, transform.py, structure.py",
    "prefix/suffix contiguity of the whole leaf sequence is not demanded (a required filler leaf may land between preserved text runs)",
]
WALL = {"quick": 900, "thorough": 7200}
OPS = genops.REPLACE_FAMILY + ["replace_step"]


def cases(tier):
    return 5000 if tier == "quick" else 120000


def floors(tier):
    f = {"ops": 15000, "ops_returned": 12000, "distinct_nontrivial": 200}
    for o in OPS:
        f["op:" + o] = 500
    return f


def is_subsequence(small, big):
    it = iter(big)
    return all(any(x == y for y in it) for x in small)


def embed(small, big):
    """Greedy in-order embedding of `small` into `big`; returns the set of used indices of
    big or None."""
    used = []
    j = 0
    for x in small:
        while j < len(big) and big[j] != x:
            j += 1
        if j == len(big):
            return None
        used.append(j)
        j += 1
    return used


def judge_result(ctx, sch, op, old_tk, new_doc, frm, to, slice_tk, det, mech, is_delete):
    """The 'whenever it returns' clauses.  Returns True if everything held."""
    rs = sch.ref
    newp = flat.pt(new_doc)
    why = rs.why_invalid(newp)
    if why is not None:
        ctx.violation("invalid-result", "%s returned a document that is not schema-valid (%s): %s" % (op, why, str(new_doc)[:300]), det,
                      {**mech, "why": why.split(":")[-1].strip().split(" ")[0]})
        return False
    new_tk = flat.toks(newp[4], sch.leaf)
    P = flat.leafseq(old_tk[:frm])
    S = flat.leafseq(old_tk[to:])
    PT = [t for t in P if t[0] == "T"]
    ST = [t for t in S if t[0] == "T"]
    NT = [t for t in new_tk if t[0] == "T"]
    if NT[:len(PT)] != PT or (ST and NT[len(NT) - len(ST):] != ST) or len(NT) < len(PT) + len(ST):
        # is it only the marks that differ?
        units_only = [t[1] for t in NT[:len(PT)]] == [t[1] for t in PT] and \
            [t[1] for t in NT[len(NT) - len(ST):]] == [t[1] for t in ST] if len(NT) >= len(PT) + len(ST) else False
        ctx.violation("surrounding-text", "%s changed text %s the range: before-text %r, after-text %r, new text %r" % (
            op, "marks outside" if units_only else "outside",
            flat.units_to_str([t[1] for t in PT])[-30:], flat.units_to_str([t[1] for t in ST])[:30], flat.units_to_str([t[1] for t in NT])[:80]),
            det, {**mech, "marks_only": units_only})
        return False
    mid = [t[1] for t in NT[len(PT):len(NT) - len(ST)]]
    sunits = [t[1] for t in slice_tk if t[0] == "T"]
    if is_delete and mid:
        ctx.violation("delete-left-text", "%s(%d,%d) left text %r between the preserved parts" % (op, frm, to, flat.units_to_str(mid)[:60]), det, mech)
        return False
    if not is_subsequence(mid, sunits):
        ctx.violation("middle-text", "%s: text between the preserved parts %r is not an in-order subsequence of the slice's text %r" % (
            op, flat.units_to_str(mid)[:60], flat.units_to_str(sunits)[:60]), det, mech)
        return False
    # non-text leaves
    PL = [t for t in P if t[0] == "L"]
    SL = [t for t in S if t[0] == "L"]
    NL = [t for t in new_tk if t[0] == "L"]
    used = embed(PL + SL, NL)
    if used is None:
        ctx.violation("surrounding-leaves", "%s lost or modified a leaf node outside the range: outside leaves %r, new leaves %r" % (
            op, [t[1] for t in PL + SL], [t[1] for t in NL]), det, mech)
        return False
    usedset = set(used)
    extras = [t for i, t in enumerate(NL) if i not in usedset]
    sleaves = [(t[1], t[2]) for t in slice_tk if t[0] == "L"]
    nonfill = []
    for t in extras:
        filler = rs.generatable(t[1]) and t[2] == flat.akey(rs.attrs_json(t[1])) and not t[3]
        if (t[1], t[2]) in sleaves or not filler:
            nonfill.append((t[1], t[2]))
    # every non-filler extra must come from the slice (multiset)
    pool = list(sleaves)
    for x in nonfill:
        if x in pool:
            pool.remove(x)
        else:
            filler = rs.generatable(x[0]) and x[1] == flat.akey(rs.attrs_json(x[0]))
            if not filler:
                ctx.violation("invented-leaf", "%s: leaf %r in the result comes neither from outside the range nor from the slice" % (op, x), det, mech)
                return False
    return True


_FLAGS = {"frontier_mismatch": False, "armed": False}


def arm_fitter_probe():
    """Observe (not alter) one internal fact the known-findings classifier needs: did the
    fitter, while closing, re-open a node after the range on a frontier level whose match
    does not accept that node type?"""
    if _FLAGS["armed"]:
        return
    import prosemirror.transform.replace as R

    orig = R.Fitter.open_frontier_node

    def open_frontier_node(self, type_, attrs=None, content=None):
        try:
            top = self.frontier[self.depth]
            if top.match is None or top.match.match_type(type_) is None:
                _FLAGS["frontier_mismatch"] = True
        except Exception:
            pass
        return orig(self, type_, attrs, content)

    R.Fitter.open_frontier_node = open_frontier_node
    _FLAGS["armed"] = True


def case(ctx, rnd, i):
    from prosemirror.model import Fragment, Slice
    from prosemirror.transform import ReplaceAroundStep, ReplaceStep, Transform, replace_step

    r = rnd.random()
    if r < 0.62:
        sch = schemas.get(rnd.choice(schemas.TOTALITY))
    elif r < 0.75:
        sch = schemas.get(rnd.choice(["structure", "fixed"]))
    else:
        sch = schemas.random_schema(rnd)
        if sch is None:
            ctx.count("schema_gen_failed")
            return
    stepmon.register(sch)
    rs, leaf = sch.ref, sch.leaf
    g = gen.DocGen(sch, rnd, wide=0.1, mark_p=0.3)
    d, p = g.doc()
    tk = flat.toks(p[4], leaf)
    n = len(tk)
    prof = flat.depth_profile(tk)
    others = other_docs(sch, rnd, 2, mark_p=0.3)
    slices = gensteps.valid_slices(sch, rnd, others + [(d, p)], per=5)
    sid = sch.cls if sch.cls == "random" else sch.id
    ctx.sample({"schema": sch.id, "doc": str(d)[:200], "slices": [str(s)[:80] for s in slices[:3]]})
    base = describe_doc(sch, d)

    for _ in range(45):
        opname = rnd.choice(OPS)
        # positions: uniform, or compatible with the slice's open depths
        a = rnd.randint(0, n)
        b = rnd.randint(a, min(n, a + rnd.choice([0, 1, 2, 3, 6, n])))
        slice_tk = []
        slice_fact = False
        args = {"from": a, "to": b}
        if opname in ("replace", "replace_range", "replace_step"):
            s = rnd.choice(slices) if slices and rnd.random() < 0.9 else Slice.empty
            if rnd.random() < 0.3:
                need = s.open_start - s.open_end
                compat = [(x, y) for x in range(n + 1) if prof[x] >= s.open_start for y in range(x, min(n, x + 10) + 1) if prof[x] - prof[y] == need]
                if compat:
                    a, b = rnd.choice(compat)
                    args = {"from": a, "to": b}
            st = flat.toks(flat.pt_frag(s.content), leaf)
            slice_tk = st[s.open_start:len(st) - s.open_end]
            slice_fact = gensteps.both_open_non_prefix(rs, flat.pt_frag(s.content), s.open_start, s.open_end)
            args.update(slice=s.to_json(), open=[s.open_start, s.open_end])
            if opname == "replace":
                fn = lambda tr: tr.replace(a, b, s)  # noqa: E731
            elif opname == "replace_range":
                fn = lambda tr: tr.replace_range(a, b, s)  # noqa: E731
            else:
                fn = None
        elif opname in ("replace_with", "insert", "replace_range_with"):
            names = [x for x, t in rs.nodes.items() if x != rs.top]
            nodes = []
            if opname == "replace_with" and rnd.random() < 0.5:
                nodes = genops.sibling_run(sch, rnd, g, 3) or []
            else:
                nd = genops.valid_node(sch, g, rnd.choice(names))
                if nd is not None:
                    if nd.is_inline and rnd.random() < 0.4:
                        ms = g.marks_for(rnd.choice([x for x, t in rs.nodes.items() if t.inline_content] or [rs.top]), 0.4)
                        nd = nd.mark(flat.build_marks(sch.schema, ms))
                    nodes.append(nd)
            if not nodes:
                continue
            if opname == "insert":
                b = a
                args = {"from": a, "to": a}
            if opname == "replace_range_with" and rnd.random() < 0.5:
                b = a
                args = {"from": a, "to": a}
            content = nodes[0] if len(nodes) == 1 else nodes
            frag = Fragment.from_(content)
            slice_tk = flat.toks(flat.pt_frag(frag), leaf)
            args["content"] = [x.to_json() for x in nodes]
            if opname == "replace_with":
                fn = lambda tr: tr.replace_with(a, b, content)  # noqa: E731
            elif opname == "insert":
                fn = lambda tr: tr.insert(a, content)  # noqa: E731
            else:
                node0 = nodes[0]
                slice_tk = flat.toks((flat.pt(node0),), leaf)
                fn = lambda tr: tr.replace_range_with(a, b, node0)  # noqa: E731
        elif opname == "delete":
            fn = lambda tr: tr.delete(a, b)  # noqa: E731
        else:
            fn = lambda tr: tr.delete_range(a, b)  # noqa: E731
        is_delete = opname in ("delete", "delete_range")
        ctx.count("ops")
        ctx.count("op:" + opname)
        ctx.ev()
        det = {**base, "op": opname, "args": args}
        mech = {"op": opname, "schema_class": "totality" if sch.totality else sch.cls, "schema": sid, "flexible": sch.id in schemas.FLEXIBLE,
                "slice_node_open_both_sides_non_prefix": slice_fact}
        tr = Transform(d)
        arm_fitter_probe()
        _FLAGS["frontier_mismatch"] = False
        lim = opwork.line_budget(n, len(slice_tk))
        try:
            if opname == "replace_step":
                step = opwork.watch().run(lim, replace_step, d, a, b, s)
                if step is not None:
                    tr.step(step)
            else:
                opwork.watch().run(lim, fn, tr)
        except StepBudgetExceeded as e:
            ctx.count("ops_budget_exceeded")
            ctx.violation("nontermination", "%s exceeded the step budget: %s" % (opname, e), det, {**mech, "exc": "StepBudgetExceeded"})
            continue
        except Exception as e:
            ctx.count("ops_raised")
            internal = not isinstance(e, ValueError) or isinstance(e, UnicodeError)
            if sch.totality or sch.id in ("fixed", "structure"):
                import traceback
                ctx.violation("raised", "%s raised %s: %s" % (opname, type(e).__name__, e),
                              {**det, "trace": traceback.format_exc()[-1200:]}, {**mech, "exc": type(e).__name__, "msg": _msgclass(e)})
            else:
                ctx.count("ops_raised_outside_totality_class:%s" % ("internal" if internal else "reported"))
                ctx.count("ops_raised_in_schema:%s" % sid)
                ctx.count("raised_detail:%s:%s:%s:%s" % (sid, opname, type(e).__name__, _msgclass(e)))
                ctx.cover([sid, opname, "raised", type(e).__name__])
            continue
        ctx.count("ops_returned")
        kinds = sorted({type(x).__name__ for x in tr.steps})
        noop = not tr.steps
        mech2 = {**mech, "noop": noop and tr.doc is d, "flexible": sch.id in schemas.FLEXIBLE, "steps": kinds,
                 "fitter_reopened_node_on_non_accepting_frontier": _FLAGS["frontier_mismatch"]}
        ok = judge_result(ctx, sch, opname, tk, tr.doc, a, b, slice_tk, det, mech2, is_delete)
        if ok:
            expanded = any((getattr(x, "from_", a) < a or getattr(x, "to", b) > b) for x in tr.steps)
            trivial = opname in ("replace", "replace_step", "replace_with", "insert") and kinds == ["ReplaceStep"] and not expanded \
                and "open" in args and args["open"] == [0, 0] and prof[a] == prof[b]
            ctx.cover([sid, opname, prof[a], prof[b], args.get("open"), kinds, expanded, noop], nontrivial=not trivial)


def _msgclass(e):
    m = str(e)
    for k in ("Cannot join", "Invalid content", "Inconsistent open", "deeper than", "Structure", "Gap is not", "does not fit", "No node", "out of range"):
        if k in m:
            return k
    return m[:30]
