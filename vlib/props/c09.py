"""C09 - positions resolve, index and traverse consistently, counting UTF-16 units.

Every accessor is recomputed from an annotated plain tree (absolute token offsets) that is
built by plain attribute reads; ancestors and visited nodes are compared by identity.
"""
from .. import flat, gen, schemas
from .common import describe_doc, pick_schema

ID = "C09"
LEVEL = "exploration"
RULE = (
    "case = one generated valid document (catalogue + random well-founded schemas; astral text so "
    "that positions fall inside surrogate pairs; non-inclusive marks; inline leaves; empty "
    "textblocks): every position 0..size is resolved and every ResolvedPos accessor at every depth "
    "(also negative depth arguments), node_at, child_after/before, find_index, child/maybe_child "
    "(indices -2..n+1) compared with the annotated-tree reference; all (small doc) or sampled "
    "position pairs for shared_depth, same_parent, block_range (+NodeRange fields, with predicate), "
    "marks_across, nodes_between/descendants with a pruning callback, range_has_mark, text_between "
    "(separator, leaf text). distinct = (schema, depth, place class: in-text / in-surrogate / "
    "boundary / first / last / empty parent); trivial = depth-0 boundary positions."
)
ASSUMPTIONS = [
    "negative depth arguments are only exercised while depth+arg >= 0 (the documented domain)",
    "block_range with a predicate is only called with pos <= other (upstream drops the predicate when it swaps)",
]


def cases(tier):
    return 5000 if tier == "quick" else 100000


def floors(tier):
    return {"positions": 5000, "pairs": 5000, "in_surrogate_positions": 30, "distinct_nontrivial": 60}


class A:
    __slots__ = ("real", "kind", "type", "marks", "text", "units", "pos", "size", "kids", "parent", "index")


def annotate(node, pos, leaf, parent=None, index=0):
    a = A()
    a.real = node
    a.parent = parent
    a.index = index
    a.pos = pos
    a.marks = flat.mskey(node.marks)
    a.type = node.type.name
    if a.type == "text":
        a.kind = "t"
        a.text = node.text
        a.units = flat.units(node.text)
        a.size = len(a.units)
        a.kids = []
    elif a.type in leaf:
        a.kind = "l"
        a.size = 1
        a.kids = []
    else:
        a.kind = "n"
        a.kids = []
        p = pos + 1
        for i, c in enumerate(node.content.content):
            k = annotate(c, p, leaf, a, i)
            a.kids.append(k)
            p += k.size
        a.size = p - pos + 1
    return a


def csize(a):
    return a.size - 2 if a.kind == "n" else 0


def ref_resolve(root, pos):
    chain = [root]
    cur = root
    while True:
        nxt = None
        for k in cur.kids:
            if k.kind == "n" and k.pos < pos < k.pos + k.size:
                nxt = k
                break
        if nxt is None:
            return chain
        chain.append(nxt)
        cur = nxt


def ref_index(a, pos):
    return sum(1 for k in a.kids if k.pos + k.size <= pos)


def text_kid_at(parent, pos):
    for k in parent.kids:
        if k.kind == "t" and k.pos < pos < k.pos + k.size:
            return k
    return None


def kid_starting(parent, pos):
    for k in parent.kids:
        if k.pos == pos:
            return k
    return None


def kid_ending(parent, pos):
    for k in parent.kids:
        if k.pos + k.size == pos:
            return k
    return None


def pt_cut_text(k, lo, hi):
    return ("t", flat.units_to_str(k.units[lo:hi]), k.marks)


def ref_marks(sch, parent, pos):
    rs = sch.ref
    if csize(parent) == 0:
        return ()
    tk = text_kid_at(parent, pos)
    if tk is not None:
        return tk.marks
    main = kid_ending(parent, pos)
    other = kid_starting(parent, pos)
    if main is None:
        main, other = other, None
    out = []
    for m in main.marks:
        if not rs.marks[m[0]].inclusive and (other is None or m not in other.marks):
            continue
        out.append(m)
    return tuple(out)


def ref_walk(parent, frm, to, f, out):
    """Reference nodes_between over annotated kids; positions are absolute (root content
    coordinates)."""
    for k in parent.kids:
        if k.pos >= to:
            break
        if k.pos + k.size > frm:
            out.append((id(k.real), k.pos, id(parent.real), k.index))
            if f(k) is not False and k.kind == "n" and csize(k) > 0:
                ref_walk(k, frm, to, f, out)


def case(ctx, rnd, i):
    # (one case in eight: a mark-centred random schema, which also has an inline atom WITH content)
    sch = schemas.mark_schema(rnd) if rnd.random() < 0.125 else pick_schema(rnd, random_share=0.3)
    if sch is None:
        ctx.count("schema_gen_failed")
        return
    g = gen.DocGen(sch, rnd, wide=0.3, mark_p=0.35)
    g.odd_chars = True
    d, p = g.doc()
    leaf = sch.leaf
    rs = sch.ref
    root = annotate(d, -1, leaf)
    n = root.size - 2
    ctx.sample({"schema": sch.id, "doc": str(d)[:300], "size": n})
    sid = sch.cls if sch.cls == "random" else sch.id
    base = describe_doc(sch, d)

    def bad(oracle, msg, **kw):
        ctx.violation(oracle, msg, {**base, **kw}, {"accessor": oracle})

    if d.content.size != n or d.node_size != n + 2:
        bad("node_size", "doc content.size=%r node_size=%r, reference %d" % (d.content.size, d.node_size, n))
        return
    _check_sizes(ctx, root, bad)

    resolved = {}
    for pos in range(n + 1):
        ctx.count("positions")
        ctx.ev()
        try:
            r = d.resolve(pos)
            resolved[pos] = r
            _check_pos(ctx, sch, d, root, n, pos, r, bad, sid)
        except Exception as e:
            bad("accessor-raised", "position %d: %s: %s" % (pos, type(e).__name__, e), pos=pos, exc=type(e).__name__)
    for pos in (-1, n + 1):
        try:
            d.resolve(pos)
            bad("resolve-range", "resolve(%d) did not raise for a document of size %d" % (pos, n), pos=pos)
        except ValueError:
            pass
        except Exception as e:
            bad("resolve-range", "resolve(%d) raised %s instead of a ValueError" % (pos, type(e).__name__), pos=pos)

    # ---- pairs
    if n <= 12:
        pairs = [(a, b) for a in range(n + 1) for b in range(a, n + 1)]
    else:
        pairs = []
        for _ in range(60):
            a = rnd.randint(0, n)
            b = rnd.randint(a, n)
            pairs.append((a, b))
        for _ in range(10):
            a = rnd.randint(0, n)
            pairs.append((a, a))
    for a, b in pairs:
        if a not in resolved or b not in resolved:
            continue
        ctx.count("pairs")
        ctx.ev()
        try:
            # half of the pairs use a second, separately resolved object for the other end (an
            # equal position is then not the identical ResolvedPos)
            rb_ = d.resolve(b) if rnd.random() < 0.5 else resolved[b]
            if a == b and rb_ is not resolved[a]:
                ctx.count("pairs_equal_position_distinct_objects")
            _check_pair(ctx, sch, d, root, n, a, b, resolved[a], rb_, bad, rnd)
        except Exception as e:
            bad("pair-accessor-raised", "pair (%d,%d): %s: %s" % (a, b, type(e).__name__, e), **{"from": a, "to": b, "exc": type(e).__name__})


def _check_sizes(ctx, a, bad):
    for k in a.kids:
        if k.real.node_size != k.size:
            bad("node_size", "node_size of %s is %r, token count %d" % (k.real, k.real.node_size, k.size))
        if k.kind == "n":
            if k.real.content.size != csize(k):
                bad("node_size", "content.size of %s is %r, token count %d" % (k.real, k.real.content.size, csize(k)))
            _check_sizes(ctx, k, bad)


def _check_pos(ctx, sch, d, root, n, pos, r, bad, sid):
    chain = ref_resolve(root, pos)
    depth = len(chain) - 1
    parent = chain[-1]
    P = dict(pos=pos)
    if r.depth != depth:
        bad("depth", "resolve(%d).depth = %r, reference %d" % (pos, r.depth, depth), **P)
        return
    if r.pos != pos:
        bad("pos", "resolve(%d).pos = %r" % (pos, r.pos), **P)
    tkid = text_kid_at(parent, pos)
    toff = pos - tkid.pos if tkid is not None else 0
    for dd in range(depth + 1):
        a = chain[dd]
        idx = ref_index(a, pos)
        start = a.pos + 1
        end = start + csize(a)
        for arg in ([dd] + ([dd - depth] if dd < depth else [])):
            if r.node(arg) is not a.real:
                bad("node", "resolve(%d).node(%d) is not the depth-%d ancestor" % (pos, arg, dd), **P)
            if r.index(arg) != idx:
                bad("index", "resolve(%d).index(%d) = %r, reference %d" % (pos, arg, r.index(arg), idx), **P)
            ia = idx + (0 if (dd == depth and toff == 0) else 1)
            if r.index_after(arg) != ia:
                bad("index_after", "resolve(%d).index_after(%d) = %r, reference %d" % (pos, arg, r.index_after(arg), ia), **P)
            if r.start(arg) != start or r.end(arg) != end:
                bad("start-end", "resolve(%d).start/end(%d) = %r/%r, reference %d/%d" % (pos, arg, r.start(arg), r.end(arg), start, end), **P)
            if dd >= 1:
                if r.before(arg) != a.pos or r.after(arg) != a.pos + a.size:
                    bad("before-after", "resolve(%d).before/after(%d) = %r/%r, reference %d/%d" % (pos, arg, r.before(arg), r.after(arg), a.pos, a.pos + a.size), **P)
        # pos_at_index
        p_ = start
        for j in range(len(a.kids) + 1):
            if r.pos_at_index(j, dd) != p_:
                bad("pos_at_index", "resolve(%d).pos_at_index(%d,%d) = %r, reference %d" % (pos, j, dd, r.pos_at_index(j, dd), p_), **P)
                break
            if j < len(a.kids):
                p_ += a.kids[j].size
    if r.index() != ref_index(parent, pos) or r.start() != parent.pos + 1 or r.end() != parent.pos + 1 + csize(parent):
        bad("default-depth", "index()/start()/end() without argument disagree with the parent depth", **P)
    if r.before(depth + 1) != pos or r.after(depth + 1) != pos:
        bad("before-after", "before/after(depth+1) should be the position itself", **P)
    try:
        r.before(0)
        bad("before-after", "before(0) did not raise", **P)
    except ValueError:
        pass
    if r.parent is not parent.real or r.doc is not root.real:
        bad("parent", "resolve(%d).parent/doc identity" % pos, **P)
    if r.parent_offset != pos - (parent.pos + 1):
        bad("parent_offset", "resolve(%d).parent_offset = %r, reference %d" % (pos, r.parent_offset, pos - parent.pos - 1), **P)
    if r.text_offset != toff:
        bad("text_offset", "resolve(%d).text_offset = %r, reference %d" % (pos, r.text_offset, toff), **P)
    # node_before / node_after
    if tkid is not None:
        exp_b = pt_cut_text(tkid, 0, toff)
        exp_a = pt_cut_text(tkid, toff, tkid.size)
    else:
        kb, ka = kid_ending(parent, pos), kid_starting(parent, pos)
        exp_b = flat.pt(kb.real) if kb is not None else None
        exp_a = flat.pt(ka.real) if ka is not None else None
        if kb is not None and r.node_before is not kb.real:
            bad("node_before", "resolve(%d).node_before is not the sibling object" % pos, **P)
        if ka is not None and r.node_after is not ka.real:
            bad("node_after", "resolve(%d).node_after is not the sibling object" % pos, **P)
    nb, na = r.node_before, r.node_after
    if (flat.pt(nb) if nb is not None else None) != exp_b:
        bad("node_before", "resolve(%d).node_before = %s, reference %r" % (pos, nb, exp_b), **P)
    if (flat.pt(na) if na is not None else None) != exp_a:
        bad("node_after", "resolve(%d).node_after = %s, reference %r" % (pos, na, exp_a), **P)
    # marks
    em = ref_marks(sch, parent, pos)
    gm = flat.mskey(r.marks())
    if gm != em:
        bad("marks", "resolve(%d).marks() = %r, documented rule gives %r" % (pos, gm, em), **P,
            at_start=kid_ending(parent, pos) is None and tkid is None)
    # node_at
    ka = kid_starting(parent, pos)
    exp_at = tkid.real if tkid is not None else (ka.real if ka is not None else None)
    if d.node_at(pos) is not exp_at:
        bad("node_at", "node_at(%d) = %s, reference %s" % (pos, d.node_at(pos), exp_at), **P)
    # child_after / child_before / find_index on the parent, relative offsets
    rel = pos - parent.pos - 1
    _check_child_lookup(parent, rel, bad, P)
    in_sur = tkid is not None and 0xDC00 <= tkid.units[toff] <= 0xDFFF and 0xD800 <= tkid.units[toff - 1] <= 0xDBFF
    if in_sur:
        ctx.count("in_surrogate_positions")
    place = "in-surrogate" if in_sur else "in-text" if tkid is not None else \
        "empty" if csize(parent) == 0 else "first" if rel == 0 else "last" if rel == csize(parent) else "boundary"
    ctx.cover([sid, depth, place, bool(em)], nontrivial=not (depth == 0 and place == "boundary"))


def _check_child_lookup(a, rel, bad, P):
    node = a.real
    base = a.pos + 1
    sz = csize(a)
    kids = a.kids
    # find_index
    def fi(rel, rnd_):
        if rel == 0:
            return (0, 0)
        if rel == sz:
            return (len(kids), sz)
        for i, k in enumerate(kids):
            s, e = k.pos - base, k.pos - base + k.size
            if e == rel:
                return (i + 1, e)
            if s < rel < e:
                return (i + 1, e) if rnd_ > 0 else (i, s)
            if s == rel:
                return (i, s)
        raise AssertionError

    for rnd_ in (-1, 1):
        got = node.content.find_index(rel, rnd_)
        exp = fi(rel, rnd_)
        if (got["index"], got["offset"]) != exp:
            bad("find_index", "find_index(%d,%d) = %r, reference %r" % (rel, rnd_, got, exp), **P)
    ca = node.child_after(rel)
    i, off = fi(rel, -1)
    expn = kids[i].real if i < len(kids) else None
    if ca["node"] is not expn or ca["index"] != i or ca["offset"] != off:
        bad("child_after", "child_after(%d) = %r, reference (%s,%d,%d)" % (rel, ca, expn, i, off), **P)
    cb = node.child_before(rel)
    if rel == 0:
        exp = (None, 0, 0)
    else:
        inside = [(j, k) for j, k in enumerate(kids) if k.pos - base < rel <= k.pos - base + k.size]
        j, k = inside[0]
        exp = (k.real, j, k.pos - base)
    if cb["node"] is not exp[0] or cb["index"] != exp[1] or cb["offset"] != exp[2]:
        bad("child_before", "child_before(%d) = %r, reference %r" % (rel, cb, (str(exp[0]), exp[1], exp[2])), **P)
    # child / maybe_child over -2..n+1
    for j in range(-2, len(kids) + 2):
        ok = 0 <= j < len(kids)
        mc = node.maybe_child(j)
        if (mc is not None) != ok or (ok and mc is not kids[j].real):
            bad("maybe_child", "maybe_child(%d) of a node with %d children = %s" % (j, len(kids), mc), **P, index=j)
        try:
            c = node.child(j)
            if not ok:
                bad("child", "child(%d) of a node with %d children returned %s instead of raising" % (j, len(kids), c), **P, index=j)
            elif c is not kids[j].real:
                bad("child", "child(%d) returned the wrong node" % j, **P)
        except (IndexError, ValueError):
            if ok:
                bad("child", "child(%d) raised for a valid index" % j, **P)
    if node.child_count != len(kids) or (node.first_child is not (kids[0].real if kids else None)) or \
            (node.last_child is not (kids[-1].real if kids else None)):
        bad("child_count", "child_count/first_child/last_child disagree", **P)
    for rel_bad in (-1, sz + 1):
        try:
            node.content.find_index(rel_bad)
            bad("find_index", "find_index(%d) on a fragment of size %d did not raise" % (rel_bad, sz), **P)
        except ValueError:
            pass


def _check_pair(ctx, sch, d, root, n, a, b, ra, rb, bad, rnd):
    rs = sch.ref
    P = {"from": a, "to": b}
    ca, cb = ref_resolve(root, a), ref_resolve(root, b)
    # shared depth
    sd = 0
    for dd in range(len(ca) - 1, 0, -1):
        x = ca[dd]
        if x.pos + 1 <= b <= x.pos + 1 + csize(x):
            sd = dd
            break
    if ra.shared_depth(b) != sd:
        bad("shared_depth", "resolve(%d).shared_depth(%d) = %r, reference %d" % (a, b, ra.shared_depth(b), sd), **P)
    sp = ca[-1] is cb[-1]
    if ra.same_parent(rb) != sp:
        bad("same_parent", "same_parent(%d,%d) = %r, reference %r" % (a, b, ra.same_parent(rb), sp), **P)
    if ra.max(rb).pos != b or ra.min(rb).pos != a:
        bad("min-max", "min/max of (%d,%d)" % (a, b), **P)
    # block range, without and with predicate
    preds = [None]
    names = sorted({x.type for x in ca})
    if names:
        nm = rnd.choice(names)
        preds.append(nm)
    for pn in preds:
        pred = (lambda node, pn=pn: node.type.name == pn) if pn is not None else None
        d0 = len(ca) - 1 - (1 if (rs.nodes[ca[-1].type].inline_content or a == b) else 0)
        exp = None
        for dd in range(d0, -1, -1):
            x = ca[dd]
            if b <= x.pos + 1 + csize(x) and (pn is None or x.type == pn):
                exp = dd
                break
        got = ra.block_range(rb, pred) if pred is not None else ra.block_range(rb)
        if (got is None) != (exp is None) or (got is not None and got.depth != exp):
            bad("block_range", "block_range(%d,%d,pred=%s) depth = %r, reference %r" % (a, b, pn, got.depth if got else None, exp), **P)
        elif got is not None:
            x = ca[exp]
            si = ref_index(x, a)
            ei = ref_index(cb[exp], b) + (0 if (exp == len(cb) - 1 and text_kid_at(cb[-1], b) is None) else 1)
            st = a if exp + 1 == len(ca) else ca[exp + 1].pos
            en = b if exp + 1 == len(cb) else cb[exp + 1].pos + cb[exp + 1].size
            if got.parent is not x.real or got.start_index != si or got.end_index != ei or got.start != st or got.end != en:
                bad("node_range", "NodeRange(%d,%d) = parent %s start_index %r end_index %r start %r end %r; reference %d %d %d %d"
                    % (a, b, got.parent.type.name, got.start_index, got.end_index, got.start, got.end, si, ei, st, en), **P)
            elif exp + 1 < len(ca) and exp + 1 < len(cb):
                # the range covers whole children start_index..end_index of the parent
                kids = x.kids
                if not (kids[si].pos == st and kids[ei - 1].pos + kids[ei - 1].size == en):
                    bad("node_range", "NodeRange(%d,%d) does not cover whole children" % (a, b), **P)
    # marks_across
    pa = ca[-1]
    idx = ref_index(pa, a)
    after = pa.kids[idx] if idx < len(pa.kids) else None
    if after is None or not rs.nodes[after.type].inline:
        exp = None
    else:
        pb = cb[-1]
        ib = ref_index(pb, b)
        nxt = pb.kids[ib] if ib < len(pb.kids) else None
        exp = tuple(m for m in after.marks if rs.marks[m[0]].inclusive or (nxt is not None and m in nxt.marks))
    got = ra.marks_across(rb)
    if (flat.mskey(got) if got is not None else None) != exp:
        bad("marks_across", "resolve(%d).marks_across(%d) = %r, reference %r" % (a, b, got, exp), **P)
    # traversal with pruning
    salt = rnd.randint(0, 3)

    def prune_ref(k):
        return False if (k.pos + len(k.type) + salt) % 4 == 0 else None

    def mk_cb(out):
        def f(node, pos, parent, index):
            out.append((id(node), pos, id(parent), index))
            return False if (pos + len(node.type.name) + salt) % 4 == 0 else None
        return f

    exp_seq, got_seq = [], []
    ref_walk(root, a, b, prune_ref, exp_seq)
    d.nodes_between(a, b, mk_cb(got_seq))
    if got_seq != exp_seq:
        bad("nodes_between", "nodes_between(%d,%d) visited %d nodes, reference %d (first difference at %d)"
            % (a, b, len(got_seq), len(exp_seq), next((i for i, (x, y) in enumerate(zip(got_seq, exp_seq)) if x != y), min(len(got_seq), len(exp_seq)))), **P)
    if a == 0 and b == n:
        exp_seq, got_seq = [], []
        ref_walk(root, 0, n, lambda k: None, exp_seq)
        d.descendants(lambda node, pos, parent, index: got_seq.append((id(node), pos, id(parent), index)))
        if got_seq != exp_seq:
            bad("descendants", "descendants() visited a different sequence", **P)
    # range_has_mark
    visited = []
    ref_walk(root, a, b, lambda k: visited.append(k), [])
    for mname, mt in rs.marks.items():
        here = [m for k in visited for m in k.marks if m[0] == mname]
        exp = bool(here) and b > a
        lt = sch.schema.marks[mname]
        if d.range_has_mark(a, b, lt) != exp:
            bad("range_has_mark", "range_has_mark(%d,%d,%s) = %r, reference %r" % (a, b, mname, not exp, exp), **P)
        if here and b > a:
            import json
            mk = sch.schema.marks[mname].create(json.loads(here[0][1]))
            if d.range_has_mark(a, b, mk) is not True:
                bad("range_has_mark", "range_has_mark(%d,%d,<mark %s>) is False though the mark is present" % (a, b, mname), **P)
    # text_between
    for sep, lt in (("", ""), ("|", ""), ("\n", "*"), ("", lambda node: "<" + node.type.name + ">")):
        exp = _ref_text(sch, root, a, b, sep, lt)
        got = d.text_between(a, b, sep, lt)
        if flat.units(got) != flat.units(exp):
            bad("text_between", "text_between(%d,%d,%r) = %r, reference %r" % (a, b, sep, got, exp), **P, sep=sep)
            break
    if a == 0 and b == n:
        exp = _ref_text(sch, root, 0, n, "", "")
        if flat.units(d.text_content) != flat.units(exp):
            bad("text_content", "text_content = %r, reference %r" % (d.text_content, exp), **P)
    # text of a sub-node, relative coordinates
    if len(ca) > 1:
        x = ca[-1]
        lo = a - (x.pos + 1)
        hi = min(b, x.pos + 1 + csize(x)) - (x.pos + 1)
        if 0 <= lo <= hi:
            exp = _ref_text(sch, x, a, x.pos + 1 + hi, "", "")
            got = x.real.text_between(lo, hi)
            if flat.units(got) != flat.units(exp):
                bad("text_between", "%s.text_between(%d,%d) = %r, reference %r" % (x.type, lo, hi, got, exp), **P)


def _ref_text(sch, root, a, b, sep, leaf_text):
    rs = sch.ref
    out = []
    st = {"sep": True}

    def f(k):
        if k.kind == "t":
            lo = max(a, k.pos) - k.pos
            hi = min(b - k.pos, k.size)
            out.append(flat.units_to_str(k.units[lo:hi]))
            st["sep"] = not sep
        elif k.kind == "l":
            if leaf_text:
                out.append(leaf_text(k.real) if callable(leaf_text) else leaf_text)
            st["sep"] = not sep
        elif not st["sep"] and not rs.nodes[k.type].inline:
            out.append(sep)
            st["sep"] = True
        return None

    ref_walk(root, a, b, f, [])
    s = "".join(out)
    return flat.units_to_str(flat.units(s))
