"""C01 - applying a step never yields a schema-invalid document (DESIGN.md §3 C01)."""
from ..monitors.step import StepMonitor
from . import stepwork

ID = "C01"
LEVEL = "exploration"
RULE = (
    "every Step.apply call made by the workloads is judged by an online postcondition: exactly one "
    "of failed/doc set; a returned doc is valid under the reference validator; exceptions only from "
    "the ValueError family. Workloads: 8 primitive step kinds with ordered in-range positions and "
    "schema-valid payloads that are not chosen to fit (wrap/retype/unwrap-like and free-form "
    "replace-around steps, structure flags), half of them through json.dumps/loads + Step.from_json, "
    "over catalogue and random well-founded schemas; plus every step the high-level transform "
    "operations emit. distinct = (schema, step class, generator tag, outcome, via-JSON, depth); "
    "trivial = empty replace of an empty range."
)
ASSUMPTIONS = [
    "the input document is valid by the reference validator (applications to invalid documents are counted, not judged)",
    "step positions satisfy 0 <= from <= gapFrom <= gapTo <= to <= size and 0 <= insert <= slice.size",
]
_mon = None


def cases(tier):
    return 12000 if tier == "quick" else 250000


def floors(tier):
    f = {"apply_events": 20000, "distinct_nontrivial": 150}
    for k in ("ReplaceStep", "ReplaceAroundStep", "AddMarkStep", "RemoveMarkStep", "AddNodeMarkStep", "RemoveNodeMarkStep", "AttrStep", "DocAttrStep"):
        f["apply:" + k] = 300
    return f


def setup(ctx):
    global _mon
    _mon = StepMonitor(ctx, c01=True)
    _mon.arm()


def case(ctx, rnd, i):
    if i == 0:
        stepwork.repo_tests_workload(ctx, ID)
        return
    if i % 4 == 3:
        from . import opwork

        opwork.transform_workload(ctx, rnd, _mon)
    else:
        stepwork.primitive_workload(ctx, rnd, _mon)
