"""C19 - HTML import is total and schema-valid; export then import is the identity."""
import json
import re

from .. import budget, flat, gen, schemas
from ..budget import StepBudgetExceeded
from .common import describe_doc

ID = "C19"
LEVEL = "exploration"
RULE = (
    "part I (import): random HTML fragments over block (p div h1-h6 blockquote pre ul ol li hr table "
    "tr td), inline (em i b strong code a span br img), ignorable (script style head title noscript "
    "object) and unknown tags with arbitrary nesting (lists in lists, empty lists, blocks in inline, "
    "top-level text), whitespace variants, style attributes, a without href, img without src, ol "
    "start; HTML comments as a separately counted sub-class; parsed with the basic and list schemas "
    "under a LINE budget on from_dom.py: must return, and the document must be valid by the reference; "
    "inline style declarations must trigger exactly the bundled style rules. "
    "part X (context rules): a probe schema with a high-priority rule restricted by a context "
    "expression and an unrestricted fallback for the same tag; the node produced for every probe "
    "element is compared with a reference context matcher over the open ancestors. part Z (rule zoo): the list schema extended with rules that use priority, getAttrs declining a match, contentElement, preserveWhitespace on ordinary blocks, ignore, skip, closeParent, consuming:false, style rules with getAttrs and clearMark, fed the same hostile HTML with the triggering elements spliced in - same oracle (returns within budget, valid document). The same probes run through parse_slice with ParseOptions.context pointing into an existing document (the open ancestors then start with that position's ancestors). Style rules restricted by a context (bare property and property=value form) are probed the same way on marked words. part E (export): "
    "valid generated documents serialise without error; the output re-parsed by lxml has the "
    "document's text and attribute values (injected < > & \" ' never create elements). part R (round "
    "trip): constructed whitespace-normal documents (single spaces between differently marked words, "
    "spaces/newlines inside code blocks, attrs the bundled rules carry) satisfy from_html(to_html(d)) == "
    "d. distinct = (part, schema, structural features of the input, outcome)."
)
ASSUMPTIONS = [
    "lxml's C parser is outside the monitored boundary; fragments are what lxml.html.fragment_fromstring accepts",
    "termination = LINE budget 5000*(len(html)+10) on from_dom.py / to_dom.py",
    "round trip only for documents whose attributes the bundled parse rules carry (image alt=None, link title=None, ordered_list order=1)",
]
_W = None


def watch():
    global _W
    if _W is None:
        import prosemirror.model.from_dom as FD
        import prosemirror.model.to_dom as TD

        _W = budget.Watch([FD, TD])
    return _W


def cases(tier):
    return 4000 if tier == "quick" else 150000


def floors(tier):
    return {"imports_rule_zoo": 1000, "imports": 4000, "imports_with_comments": 100, "context_probes": 1000, "style_probes": 300, "exports": 1500, "roundtrips": 1500, "distinct_nontrivial": 150}


# ------------------------------------------------------------------ HTML generator

BLOCK = ["p", "div", "h1", "h2", "h3", "h6", "blockquote", "pre", "ul", "ol", "li", "hr", "table", "tr", "td"]
INLINE = ["em", "i", "b", "strong", "code", "a", "span", "br", "img"]
IGNORE = ["script", "style", "head", "title", "noscript", "object"]
UNKNOWN = ["foo", "section", "center"]
WORDS = ["a", "bc", "d e", " x", "y ", "  ", " ", "\n", "\t z", "&amp;", "&lt;b&gt;", "é", "\U0001F600", "1 < 2"]
STYLES = ["font-style: italic", "font-weight: bold", "font-weight:400", "color: red", "font-style:normal;font-weight: 700", "", "x", ";;", "font-style: italic; color: blue"]


def gen_html(rnd, depth=0, features=None, comments=False, inline=None):
    features = features if features is not None else set()
    parts = []
    for _ in range(rnd.randint(1, 4 if depth < 3 else 2)):
        r = rnd.random()
        if r < 0.3 or depth > 4:
            parts.append(rnd.choice(WORDS))
            if depth == 0:
                features.add("top-text")
            continue
        if comments and r < 0.36:
            parts.append("<!-- c%d -->" % rnd.randint(0, 9))
            features.add("comment")
            continue
        r2 = rnd.random()
        if r2 < 0.45:
            tag = rnd.choice(BLOCK)
        elif r2 < 0.85:
            tag = rnd.choice(inline or INLINE)
        elif r2 < 0.93:
            tag = rnd.choice(IGNORE)
        else:
            tag = rnd.choice(UNKNOWN)
        attrs = ""
        if tag == "a":
            if rnd.random() < 0.7:
                attrs += ' href="%s"' % rnd.choice(["x", "http://a/?b=1&amp;c=2", ""])
            else:
                features.add("a-no-href")
            if rnd.random() < 0.2:
                attrs += ' title="t"'
        if tag == "img":
            if rnd.random() < 0.7:
                attrs += ' src="i.png"'
            else:
                features.add("img-no-src")
            if rnd.random() < 0.3:
                attrs += ' alt="al" title="ti"'
        if tag == "ol" and rnd.random() < 0.4:
            attrs += ' start="%d"' % rnd.randint(0, 5)
            features.add("ol-start")
        if rnd.random() < 0.15:
            attrs += ' style="%s"' % rnd.choice(STYLES)
            features.add("style")
        if rnd.random() < 0.05:
            attrs += ' class="k" data-x="1"'
        if tag in ("br", "hr", "img"):
            parts.append("<%s%s>" % (tag, attrs))
            continue
        if tag in ("ul", "ol") and rnd.random() < 0.15:
            parts.append("<%s%s></%s>" % (tag, attrs, tag))
            features.add("empty-list")
            continue
        if tag in ("ul", "ol"):
            inner = []
            for _k in range(rnd.randint(1, 3)):
                rr = rnd.random()
                if rr < 0.7:
                    inner.append("<li>%s</li>" % gen_html(rnd, depth + 2, features, comments, inline))
                elif rr < 0.85:
                    inner.append("<%s>%s</%s>" % (tag, "<li>n</li>" if rnd.random() < 0.7 else "", tag))
                    features.add("list-in-list")
                else:
                    inner.append(gen_html(rnd, depth + 2, features, comments, inline))
            parts.append("<%s%s>%s</%s>" % (tag, attrs, rnd.choice(["", " ", "\n"]).join(inner), tag))
            continue
        if tag in (inline or INLINE) and rnd.random() < 0.2:
            features.add("block-in-inline")
        inner = gen_html(rnd, depth + 1, features, comments, inline) if rnd.random() < 0.85 else ""
        parts.append("<%s%s>%s</%s>" % (tag, attrs, inner, tag))
    return rnd.choice(["", "", " ", "\n"]).join(parts)


# ------------------------------------------------------------------ import


def run_import(ctx, sch, html, part, features):
    """from_html under the watchdog; returns the Node or None (violation recorded)."""
    from prosemirror.model import Node
    from prosemirror.model.from_dom import from_html

    det = {"schema": sch.id, "html": html[:1500], "part": part}
    lim = 5000 * (len(html) + 10)
    try:
        j = watch().run(lim, from_html, sch.schema, html)
    except StepBudgetExceeded as e:
        ctx.violation("import-nontermination", "from_html exceeded the step budget (%s) on %d characters of HTML" % (e, len(html)), det,
                      {"part": part, "features": sorted(features)[:4]})
        return None
    except BaseException as e:
        import traceback
        tb = traceback.extract_tb(e.__traceback__)
        where = next((f.name for f in reversed(tb) if "prosemirror" in f.filename), "?")
        ctx.violation("import-raised", "from_html raised %s: %s (in %s)" % (type(e).__name__, str(e)[:200], where), det,
                      {"part": part, "exc": type(e).__name__, "where": where, "comment": "comment" in features})
        return None
    try:
        doc = Node.from_json(sch.schema, json.loads(json.dumps(j)))
    except Exception as e:
        ctx.violation("import-bad-json", "from_html returned JSON that does not load: %s: %s" % (type(e).__name__, e), det, {"part": part})
        return None
    why = sch.ref.why_invalid(flat.pt(doc))
    if why is not None:
        ctx.violation("import-invalid-document", "from_html returned a document that is not schema-valid (%s): %s" % (why, str(doc)[:300]), det,
                      {"part": part, "why": re.sub(r"\[\d+\]", "", why.split(":")[-1]).strip()[:50]})
        return None
    return doc


def run_parse_slice(ctx, sch, html, features):
    """DOMParser.parse_slice on the same fragments: must return; every node of the slice that is
    not on an open side must be valid; open depths must not exceed the content's spine."""
    import lxml.html
    from prosemirror.model import DOMParser
    from prosemirror.model.from_dom import ParseOptions

    det = {"schema": sch.id, "html": html[:1500], "part": "parse_slice"}
    rs, leaf = sch.ref, sch.leaf
    for ws in (True, None):
        try:
            frag = lxml.html.fragment_fromstring(html, create_parent="document-fragment")
            parser = DOMParser.from_schema(sch.schema)
            # parse_slice does not convert text itself; give it the tree parse() has prepared
            sl = watch().run(5000 * (len(html) + 10), lambda: parser.parse_slice(frag, ParseOptions(preserve_whitespace=ws)))
        except StepBudgetExceeded as e:
            ctx.violation("import-nontermination", "parse_slice exceeded the step budget (%s)" % e, det, {"part": "parse_slice"})
            return
        except BaseException as e:
            import traceback
            tb = traceback.extract_tb(e.__traceback__)
            where = next((f.name for f in reversed(tb) if "prosemirror" in f.filename), "?")
            ctx.violation("import-raised", "parse_slice raised %s: %s (in %s)" % (type(e).__name__, str(e)[:200], where), det,
                          {"part": "parse_slice", "exc": type(e).__name__, "where": where, "comment": "comment" in features})
            return
        ctx.count("parse_slices")
        content = flat.pt_frag(sl.content)

        def walk(children, os_, oe):
            last = len(children) - 1
            for i, c in enumerate(children):
                if c[0] == "t" or c[1] in leaf:
                    continue
                lo, ro = os_ > 0 and i == 0, oe > 0 and i == last
                if lo or ro:
                    r = walk(c[4], os_ - 1 if lo else 0, oe - 1 if ro else 0)
                else:
                    r = rs.why_invalid(c, "slice")
                if r:
                    return r
            return None

        def spine(children, side):
            k = 0
            cur = children
            while cur:
                c = cur[0] if side == 0 else cur[-1]
                if c[0] != "n" or c[1] in leaf:
                    break
                k += 1
                cur = c[4]
            return k

        why = walk(content, sl.open_start, sl.open_end)
        if why is not None:
            ctx.violation("import-invalid-document", "parse_slice returned a slice with an invalid closed node (%s): %s" % (why, str(sl)[:300]), det,
                          {"part": "parse_slice", "why": why.split(":")[-1].strip()[:50]})
            return
        if sl.open_start > spine(content, 0) or sl.open_end > spine(content, 1):
            ctx.violation("parse-slice-open", "parse_slice returned open depths (%d,%d) deeper than its content %s" % (sl.open_start, sl.open_end, str(sl)[:200]), det, {"part": "parse_slice"})
            return
    ctx.cover(["P", sch.id, min(sl.open_start, 3), min(sl.open_end, 3)], nontrivial=True)


# ------------------------------------------------------------------ rule zoo


_ZOO = []
ZOO_BLOCK = ["aside", "section", 'div class="aside"', 'div class="close"', 'p class="pre"', 'p class="full"', 'pre class="x"']
ZOO_INLINE = ['span class="fn"', 'span class="fn"', 'span class="note" data-kind="k"', 'span class="note"', 'span class="hidden"', "font", 'br class="close"', 'b class="both"', "sup", "mark",
              'mark data-c="red"', 'span style="vertical-align: super"', 'span style="background-color: blue"', 'span style="background-color: none"',
              'span style="font-style: normal"', 'em style="font-style: normal"']


def zoo_schema():
    """The list schema plus node and mark types whose parse rules use the rule features the
    bundled schemas do not: priority, getAttrs that declines (returns False), contentElement
    (callable), preserveWhitespace on ordinary blocks, ignore, skip, closeParent, consuming:
    False, style rules with getAttrs, clearMark.  Only the generic C19 oracle applies (returns,
    valid document)."""
    if _ZOO:
        return _ZOO[0]
    from prosemirror.model import Schema
    from prosemirror.test_builder import test_schema as S0

    def has(cls):
        return lambda d: None if cls in (d.get("class") or "").split() else False

    nodes = dict(S0.spec["nodes"])
    para = dict(nodes["paragraph"])
    para["parseDOM"] = [
        {"tag": "p", "getAttrs": has("pre"), "preserveWhitespace": True, "priority": 60},
        {"tag": "p", "getAttrs": has("full"), "preserveWhitespace": "full", "priority": 60},
        {"tag": "span", "getAttrs": has("hidden"), "ignore": True, "priority": 60},
        {"tag": "font", "skip": True},
        {"tag": "br", "getAttrs": has("close"), "close_parent": True, "priority": 60},
        {"tag": "div", "getAttrs": has("close"), "close_parent": True, "priority": 60},
        *para.get("parseDOM", []),
    ]
    nodes["paragraph"] = para
    cb = dict(nodes["code_block"])
    cb["parseDOM"] = [{"tag": "pre", "getAttrs": has("x"), "preserveWhitespace": True, "priority": 55}, *cb.get("parseDOM", [])]
    nodes["code_block"] = cb

    def first_div(d):
        kids = [c for c in d if isinstance(c.tag, str) and c.tag.lower() == "div"]
        return kids[0] if kids else d

    nodes["aside"] = {"content": "block+", "group": "block", "defining": True, "toDOM": lambda n: ["aside", 0],
                      "parseDOM": [{"tag": "aside"}, {"tag": "div", "getAttrs": has("aside"), "priority": 70}, {"tag": "section", "contentElement": first_div}]}
    nodes["note"] = {"inline": True, "group": "inline", "attrs": {"kind": {"default": "x"}}, "toDOM": lambda n: ["span", {"class": "note", "data-kind": n.attrs["kind"]}],
                     "parseDOM": [{"tag": "span", "priority": 60, "getAttrs": lambda d: ({"kind": d.get("data-kind")} if "note" in (d.get("class") or "") and d.get("data-kind") else False)}]}
    # a footnote-like inline node that has inline content of its own
    nodes["fn"] = {"inline": True, "group": "inline", "content": "text*", "toDOM": lambda n: ["span", {"class": "fn"}, 0],
                   "parseDOM": [{"tag": "span", "getAttrs": has("fn"), "priority": 65}]}
    marks = dict(S0.spec["marks"])
    em = dict(marks["em"])
    em["parseDOM"] = [{"tag": "b", "getAttrs": has("both"), "consuming": False, "priority": 60}, *em.get("parseDOM", []),
                      {"style": "font-style=normal", "clear_mark": lambda m: m.type.name == "em"}]
    marks["em"] = em
    marks["sup"] = {"parseDOM": [{"tag": "sup"}, {"style": "vertical-align=super"}], "toDOM": lambda m, i: ["sup", 0], "excludes": "sup code"}
    marks["hl"] = {"attrs": {"color": {"default": "y"}}, "toDOM": lambda m, i: ["mark", {"data-c": m.attrs["color"]}, 0],
                   "parseDOM": [{"tag": "mark", "getAttrs": lambda d: {"color": d.get("data-c") or "y"}},
                                {"style": "background-color", "getAttrs": lambda v: ({"color": v} if v != "none" else False)}]}
    S = Schema({"nodes": nodes, "marks": marks})
    _ZOO.append(schemas.Sch("rule-zoo", S, "other"))
    return _ZOO[0]


def gen_zoo_html(rnd, features):
    """gen_html output with zoo elements spliced in at random element boundaries."""
    html = gen_html(rnd, 0, features, comments=rnd.random() < 0.2, inline=INLINE + ["sup", "mark"])
    cuts = [m.start() for m in re.finditer(r"<(?!/|!)", html)] + [len(html)]
    for _ in range(rnd.randint(1, 5)):
        at = rnd.choice(cuts)
        el = rnd.choice(ZOO_BLOCK if rnd.random() < 0.4 else ZOO_INLINE)
        tag = el.split()[0]
        features.add("zoo:" + el.replace('"', "")[:22])
        inner = "" if tag == "br" else gen_html(rnd, 3, set(), False, INLINE + ["sup", "mark"])
        if tag == "section" and rnd.random() < 0.7:
            inner = "<h2>t</h2><div>%s</div><p>after</p>" % inner
        piece = "<%s>" % el if tag == "br" else "<%s>%s</%s>" % (el, inner, tag)
        html = html[:at] + piece + html[at:]
        cuts = [m.start() for m in re.finditer(r"<(?!/|!)", html)] + [len(html)]
    return html


# ------------------------------------------------------------------ context probe

_PROBE = {}
CONTEXTS = ["blockquote/", "doc/", "list_item/|blockquote/", "blockquote//", "block/", "bullet_list/list_item/", "doc//list_item/"]


def probe_schema(context):
    from prosemirror.model import Schema
    from prosemirror.test_builder import test_schema as S0

    if context in _PROBE:
        return _PROBE[context]
    nodes = dict(S0.spec["nodes"])
    nodes["ctxa"] = {"content": "inline*", "group": "block", "parseDOM": [{"tag": "aside", "context": context, "priority": 60}], "toDOM": lambda n: ["aside", 0]}
    nodes["ctxb"] = {"content": "inline*", "group": "block", "parseDOM": [{"tag": "aside"}], "toDOM": lambda n: ["aside", {"class": "b"}, 0]}
    S = Schema({"nodes": nodes, "marks": S0.spec["marks"]})
    sc = schemas.Sch("probe-context", S, "other")
    _PROBE[context] = sc
    return sc


def ref_context_match(sch, context, chain):
    """chain: open ancestor type names, outermost (doc) first."""
    rs = sch.ref
    for alt in re.split(r"\s*\|\s*", context):
        parts = alt.split("/")
        # trailing '' after the last '/' is the position of the node itself
        assert parts[-1] == ""
        parts = parts[:-1]

        def m(i, d):
            # match parts[0..i] against chain[0..d], anchored at the right
            if i < 0:
                return True
            part = parts[i]
            if part == "":
                if i == 0:
                    return True
                return any(m(i - 1, dd) for dd in range(d, -1, -1))
            if d < 0:
                return False
            t = rs.nodes[chain[d]]
            if chain[d] != part and part not in t.groups:
                return False
            return m(i - 1, d - 1)

        if m(len(parts) - 1, len(chain) - 1):
            return True
    return False


def gen_probe_html(rnd, chain, out, depth=0):
    """Nested containers with <aside> probes as direct children; records the expected open
    ancestors of every probe (document order)."""
    parts = []
    for _ in range(rnd.randint(1, 3)):
        r = rnd.random()
        if r < 0.4 or depth > 3:
            out.append(list(chain))
            parts.append("<aside>p%d</aside>" % len(out))
        elif r < 0.6:
            parts.append("<blockquote>%s</blockquote>" % gen_probe_html(rnd, chain + ["blockquote"], out, depth + 1))
        elif r < 0.8:
            lt = rnd.choice(["ul", "ol"])
            items = "".join("<li><p>i</p>%s</li>" % gen_probe_html(rnd, chain + ["bullet_list" if lt == "ul" else "ordered_list", "list_item"], out, depth + 1)
                            for _k in range(rnd.randint(1, 2)))
            parts.append("<%s>%s</%s>" % (lt, items, lt))
        elif r < 0.9:
            parts.append("<div>%s</div>" % gen_probe_html(rnd, chain, out, depth + 1))
        else:
            parts.append("<p>t</p>")
    return "".join(parts)


STYLE_CONTEXTS = ["paragraph/", "blockquote/paragraph/", "list_item/paragraph/", "blockquote//", "doc/paragraph/", "heading/|blockquote/paragraph/",
                  "block/", "doc//list_item/paragraph/"]
_SPROBE = {}


def style_probe_schema(context):
    """The list schema whose strong / em STYLE rules are restricted by a context expression:
    one names the bare property (font-weight), the other property=value (font-style=italic)."""
    from prosemirror.model import Schema
    from prosemirror.test_builder import test_schema as S0

    if context not in _SPROBE:
        marks = dict(S0.spec["marks"])
        marks["strong"] = {**marks["strong"], "parseDOM": [{"tag": "strong"}, {"style": "font-weight", "context": context}]}
        marks["em"] = {**marks["em"], "parseDOM": [{"tag": "em"}, {"style": "font-style=italic", "context": context}]}
        _SPROBE[context] = schemas.Sch("probe-style-context", Schema({"nodes": S0.spec["nodes"], "marks": marks}), "other")
    return _SPROBE[context]


def gen_style_probe_html(rnd, chain, out, depth=0):
    parts = []
    for _ in range(rnd.randint(1, 3)):
        r = rnd.random()
        if r < 0.45 or depth > 3:
            tb = rnd.choice(["p", "p", "h2"])
            words = []
            for _w in range(rnd.randint(1, 3)):
                kind = rnd.choice(["strong", "em", "none"])
                out.append((list(chain) + ["paragraph" if tb == "p" else "heading"], kind))
                style = {"strong": "font-weight: bold", "em": "font-style: italic", "none": "color: red"}[kind]
                words.append('<span style="%s">w%dx</span>' % (style, len(out)))
            parts.append("<%s>%s</%s>" % (tb, " ".join(words), tb))
        elif r < 0.7:
            parts.append("<blockquote>%s</blockquote>" % gen_style_probe_html(rnd, chain + ["blockquote"], out, depth + 1))
        else:
            lt = rnd.choice(["ul", "ol"])
            items = "".join("<li>%s</li>" % ("<p>i</p>" + gen_style_probe_html(rnd, chain + ["bullet_list" if lt == "ul" else "ordered_list", "list_item"], out, depth + 1))
                            for _k in range(rnd.randint(1, 2)))
            parts.append("<%s>%s</%s>" % (lt, items, lt))
    return "".join(parts)


def check_style_context(ctx, rnd):
    context = rnd.choice(STYLE_CONTEXTS)
    sch = style_probe_schema(context)
    expected = []
    html = gen_style_probe_html(rnd, ["doc"], expected)
    doc = run_import(ctx, sch, html, "style-context", {"context"})
    if doc is None:
        return
    found = {}

    def visit(n, pos, par, idx):
        if n.is_text:
            for m_ in re.finditer(r"w(\d+)x", n.text):
                found[int(m_.group(1))] = sorted(x.type.name for x in n.marks)

    doc.descendants(visit)
    ctx.count("style_context_probes", len(expected))
    ctx.ev()
    for k, (chain, kind) in enumerate(expected, 1):
        want = [kind] if kind != "none" and ref_context_match(sch, context, chain) else []
        if found.get(k) != want:
            ctx.violation("context-rule", "style rule restricted to context %r: word %d (open ancestors %r, style for %s) got marks %r, expected %r"
                          % (context, k, chain, kind, found.get(k), want), {"html": html[:1500], "context": context},
                          {"context": context, "style_rule": True, "expected_mark": bool(want)})
            return
    ctx.cover(["XS", context, any(ref_context_match(sch, context, c) for c, _k in expected)], nontrivial=True)


def check_context_option(ctx, rnd):
    """Context rules when the caller supplies the context (ParseOptions.context = a resolved
    position of an existing document, as a paste handler does): the open ancestors are the
    ancestors of that position followed by the nodes opened while parsing the slice."""
    import itertools

    import lxml.html
    from prosemirror.model import DOMParser
    from prosemirror.model.from_dom import ParseOptions

    context = rnd.choice(CONTEXTS)
    sch = probe_schema(context)
    S = sch.schema
    par_ = lambda *c: S.node("paragraph", None, list(c))  # noqa: E731
    cdoc = S.node("doc", None, [S.node("blockquote", None, [par_(S.text("x")), S.node("blockquote", None, [par_()])]),
                                S.node("bullet_list", None, [S.node("list_item", None, [par_(S.text("y"))])]), par_(S.text("z"))])
    cands = [q for q in range(cdoc.content.size + 1) if not cdoc.resolve(q).parent.inline_content]
    rp = cdoc.resolve(rnd.choice(cands))
    cchain = [rp.node(d_).type.name for d_ in range(rp.depth + 1)]
    expected = []
    html = gen_probe_html(rnd, cchain, expected)
    if not expected:
        return
    det = {"html": html[:1500], "context": context, "context_position_ancestors": cchain}
    try:
        frag = lxml.html.fragment_fromstring(html, create_parent="document-fragment")
        for d_ in itertools.chain([frag], frag.iterdescendants()):  # text children as parse() prepares them
            if isinstance(d_.tag, str) and d_.text and d_.tag.lower() != "lxmltext":
                ch = lxml.html.Element("lxmltext")
                ch.text = d_.text
                d_.insert(0, ch)
                d_.text = None
            if d_.tail:
                pr = d_.getparent()
                ch = lxml.html.Element("lxmltext")
                ch.text = d_.tail
                pr.insert(pr.index(d_) + 1, ch)
                d_.tail = None
        sl = watch().run(5000 * (len(html) + 10), lambda: DOMParser.from_schema(S).parse_slice(frag, ParseOptions(context=rp)))
    except BaseException as e:
        ctx.violation("import-raised", "parse_slice with a context position raised %s: %s" % (type(e).__name__, str(e)[:200]), det,
                      {"part": "context-option", "exc": type(e).__name__})
        return
    got = []
    sl.content.descendants(lambda n, pos, par, idx: got.append(n.type.name) if n.type.name in ("ctxa", "ctxb") else None)
    exp = ["ctxa" if ref_context_match(sch, context, ch) else "ctxb" for ch in expected]
    ctx.count("context_option_probes", len(exp))
    ctx.ev()
    if got != exp:
        k = next((j for j, (x, y) in enumerate(zip(got, exp)) if x != y), min(len(got), len(exp)))
        ctx.violation("context-rule", "context %r with ParseOptions.context inside %r: probe %d (open ancestors %r) produced %s, the expression %s match" % (
            context, cchain, k + 1, expected[k] if k < len(expected) else None, got[k] if k < len(got) else None,
            "does" if k < len(exp) and exp[k] == "ctxa" else "does not"), {**det, "got": got, "expected": exp},
            {"context": context, "context_option": True, "expected_a": k < len(exp) and exp[k] == "ctxa"})
    else:
        ctx.cover(["XO", context, len(cchain), "ctxa" in exp], nontrivial=True)


def check_context(ctx, rnd):
    context = rnd.choice(CONTEXTS)
    sch = probe_schema(context)
    expected = []
    html = gen_probe_html(rnd, ["doc"], expected)
    if not expected:
        return
    doc = run_import(ctx, sch, html, "context", {"context"})
    if doc is None:
        return
    got = []
    doc.descendants(lambda n, pos, par, idx: got.append(n.type.name) if n.type.name in ("ctxa", "ctxb") else None)
    exp = ["ctxa" if ref_context_match(sch, context, ch) else "ctxb" for ch in expected]
    ctx.count("context_probes", len(exp))
    ctx.ev()
    if got != exp:
        k = next((i for i, (x, y) in enumerate(zip(got, exp)) if x != y), min(len(got), len(exp)))
        ctx.violation("context-rule", "context %r: probe %d (open ancestors %r) produced %s, the expression %s match" % (
            context, k + 1, expected[k] if k < len(expected) else None, got[k] if k < len(got) else None,
            "does" if k < len(exp) and exp[k] == "ctxa" else "does not"), {"html": html, "context": context, "got": got, "expected": exp},
            {"context": context, "expected_a": k < len(exp) and exp[k] == "ctxa"})
    else:
        ctx.cover(["X", context, "ctxa" in exp, "ctxb" in exp], nontrivial=True)


# ------------------------------------------------------------------ export / round trip

SPECIAL = ["<", ">", "&", '"', "'", "<b>", "&amp;", "</p>", "a<b", '" x="']
WORD_CHARS = "abcdefgh"


def normal_word(rnd, special_p=0.15):
    if rnd.random() < special_p:
        return rnd.choice(SPECIAL)
    w = "".join(rnd.choice(WORD_CHARS) for _ in range(rnd.randint(1, 4)))
    if rnd.random() < 0.08:
        w += rnd.choice(["é", "\U0001F600", "中"])
    if rnd.random() < 0.06:
        # spaces that are not HTML whitespace (no-break, ideographic, thin): ordinary characters
        # for the parser's whitespace handling, also at the edge of a block
        sp = rnd.choice(["\u00a0", "\u3000", "\u2009", "\u00a0\u00a0"])
        w = w + sp if rnd.random() < 0.6 else sp + w
    return w


_IN_FN = [False]


def gen_normal_inline(sch, rnd, g, text_only=False):
    """Whitespace-normal inline content as plain trees: words joined by single spaces, no
    space at either edge, after a hard break or on both sides of a boundary."""
    rs = sch.ref
    items = []
    prev_space_ok = False  # may the next text start with a space?
    n = rnd.randint(0, 5)
    for k in range(n):
        r = rnd.random() * (0.72 if text_only else 1.0)
        if r < 0.72:
            if prev_space_ok and items and items[-1][0] == "t" and rnd.random() < 0.15:
                # the blank between two words as a text node of its own (unmarked, or marked
                # differently from both neighbours)
                sep = ()
                if rnd.random() < 0.4:
                    for mn in ("em", "strong"):
                        if mn in rs.marks and rnd.random() < 0.5:
                            sep = rs.ref_add((mn, "{}"), sep)
                items.append(("t", " ", sep))
                prev_space_ok = False
            words = [normal_word(rnd) for _ in range(rnd.randint(1, 3))]
            txt = " ".join(words)
            if prev_space_ok and rnd.random() < 0.6:
                txt = " " + txt
            ms = ()
            for mn in ("link", "em", "strong", "code", "sup", "hl"):
                if mn in rs.marks and rnd.random() < 0.22:
                    at = {"href": rnd.choice(["x", "http://a/?b=1&c=2", 'q"<', ""]), "title": None} if mn == "link" else \
                        {"color": rnd.choice(["y", "red", 'q"<&', "none"])} if mn == "hl" else {}
                    ms = rs.ref_add((mn, flat.akey(at)), ms)
            trailing = k < n - 1 and rnd.random() < 0.3
            items.append(("t", txt + (" " if trailing else ""), ms))
            prev_space_ok = not trailing
        elif r < 0.86:
            items.append(("n", "hard_break", "{}", (), ()))
            prev_space_ok = False
        elif r < 0.93 and "note" in rs.nodes:
            if rnd.random() < 0.5 and "fn" in rs.nodes and not _IN_FN[0]:
                # inline container: marked words separated by single blanks inside it
                _IN_FN[0] = True
                try:
                    inner = tuple(gen_normal_inline(sch, rnd, g, text_only=True))
                finally:
                    _IN_FN[0] = False
                items.append(("n", "fn", "{}", (), inner))
            else:
                items.append(("n", "note", flat.akey({"kind": rnd.choice(["x", "k", 'a"<b>&'])}), (), ()))
            prev_space_ok = True
        else:
            at = {"src": rnd.choice(["i.png", "a&b.png", 'x".png', ""]), "alt": None, "title": rnd.choice([None, "t<i>", ""])}
            items.append(("n", "image", flat.akey(at), (), ()))
            prev_space_ok = True
    # no space at the edges / next to a break
    out = []
    for i, it in enumerate(items):
        if it[0] == "t":
            txt = it[1]
            if i == 0 or items[i - 1][0] == "n" and items[i - 1][1] == "hard_break":
                txt = txt.lstrip(" ")
            if i == len(items) - 1 or (items[i + 1][0] == "n" and items[i + 1][1] == "hard_break"):
                txt = txt.rstrip(" ")
            if i + 1 < len(items) and items[i + 1][0] == "t" and txt.endswith(" ") and items[i + 1][1].startswith(" "):
                txt = txt.rstrip(" ")
            if not txt:
                continue
            it = ("t", txt, it[2])
        out.append(it)
    # adjacent text nodes with a space on both sides of the seam, or merged marks
    res = gen.merge_text(out)
    fixed = []
    for i, it in enumerate(res):
        if it[0] == "t" and fixed and fixed[-1][0] == "t" and fixed[-1][1].endswith(" ") and it[1].startswith(" "):
            it = ("t", it[1].lstrip(" "), it[2])
            if not it[1]:
                continue
        fixed.append(it)
    if fixed and fixed[0][0] == "t":
        fixed[0] = ("t", fixed[0][1].lstrip(" "), fixed[0][2])
    if fixed and fixed[-1][0] == "t":
        fixed[-1] = ("t", fixed[-1][1].rstrip(" "), fixed[-1][2])
    fixed = [x for x in fixed if x[0] != "t" or x[1]]
    return gen.merge_text(fixed)


def gen_normal_block(sch, rnd, g, depth=0):
    rs = sch.ref
    r = rnd.random()
    has_lists = "bullet_list" in rs.nodes
    if r < 0.35 or depth > 2:
        return ("n", "paragraph", "{}", (), gen_normal_inline(sch, rnd, g))
    if r < 0.5:
        return ("n", "heading", flat.akey({"level": rnd.randint(1, 6)}), (), gen_normal_inline(sch, rnd, g))
    if r < 0.62:
        txt = "".join(rnd.choice(["a", "b", " ", "  ", "\n", "x<y", "&", "\t"]) for _ in range(rnd.randint(0, 6)))
        txt = txt.lstrip("\n")
        return ("n", "code_block", "{}", (), (("t", txt, ()),) if txt else ())
    if r < 0.7:
        return ("n", "horizontal_rule", "{}", (), ())
    if r < 0.76 and "aside" in rs.nodes:
        return ("n", "aside", "{}", (), tuple(gen_normal_block(sch, rnd, g, depth + 1) for _ in range(rnd.randint(1, 2))))
    if r < 0.85 or not has_lists:
        return ("n", "blockquote", "{}", (), tuple(gen_normal_block(sch, rnd, g, depth + 1) for _ in range(rnd.randint(1, 2))))
    lt = rnd.choice(["bullet_list", "ordered_list"])
    items = []
    for _ in range(rnd.randint(1, 3)):
        kids = [("n", "paragraph", "{}", (), gen_normal_inline(sch, rnd, g))]
        if rnd.random() < 0.3:
            kids.append(gen_normal_block(sch, rnd, g, depth + 2))
        items.append(("n", "list_item", "{}", (), tuple(kids)))
    at = "{}" if lt == "bullet_list" else flat.akey({"order": 1})
    return ("n", lt, at, (), tuple(items))


def to_html(ctx, sch, doc, part):
    from prosemirror.model import DOMSerializer

    det = {**describe_doc(sch, doc), "part": part}
    try:
        ser = DOMSerializer.from_schema(sch.schema)
        out = watch().run(20000 * (doc.content.size + 10), lambda: str(ser.serialize_fragment(doc.content)))
        return out
    except BaseException as e:
        import traceback
        tb = traceback.extract_tb(e.__traceback__)
        where = next((f.name for f in reversed(tb) if "prosemirror" in f.filename), "?")
        ctx.violation("export-raised", "serialising a valid document raised %s: %s (in %s)" % (type(e).__name__, str(e)[:200], where), det,
                      {"part": part, "exc": type(e).__name__, "where": where})
        return None


def check_export(ctx, sch, rnd):
    """Any valid document serialises; the HTML re-parsed by lxml carries the document's text
    and attribute values."""
    import lxml.html

    g = gen.DocGen(sch, rnd, wide=0.15, mark_p=0.35)
    g.attr_value = _hostile_attr(g.attr_value, rnd)
    d, p = g.doc()
    html = to_html(ctx, sch, d, "export")
    if html is None:
        return
    ctx.count("exports")
    if sch.id == "rule-zoo":
        ctx.count("exports_rule_zoo")
    ctx.ev()
    det = {**describe_doc(sch, d), "html": html[:1500]}
    try:
        frag = lxml.html.fragment_fromstring(html, create_parent="div")
    except Exception as e:
        ctx.violation("export-unparseable", "lxml cannot parse the serialised HTML: %s" % e, det, {})
        return
    # text
    want = flat.units_to_str([t[1] for t in flat.toks(p[4], sch.leaf) if t[0] == "T"])
    got = frag.text_content()
    norm = lambda s: s.replace("\r\n", "\n").replace("\r", "\n")  # noqa: E731
    if norm(got) != norm(want):
        ctx.violation("export-text", "text of the serialised HTML %r differs from the document's text %r" % (got[:100], want[:100]), det, {"kind": "text"})
        return
    # elements: only tags the bundled toDOM rules produce
    allowed = {"div", "p", "blockquote", "hr", "h1", "h2", "h3", "h4", "h5", "h6", "pre", "code", "img", "br", "a", "em", "strong", "ul", "ol", "li"}
    if sch.id == "rule-zoo":
        allowed |= {"aside", "span", "sup", "mark"}
        kinds_doc = [json.loads(t[2])["kind"] for t in flat.toks(p[4], sch.leaf) if t[0] == "L" and t[1] == "note"]
        kinds_dom = [el.get("data-kind") for el in frag.iter("span") if "note" in (el.get("class") or "")]
        cols_doc = {json.loads(m[1])["color"] for t in flat.toks(p[4], sch.leaf) for m in (t[2] if t[0] == "T" else t[3] if t[0] in ("L", "O") else ()) if m[0] == "hl"}
        cols_dom = {el.get("data-c") for el in frag.iter("mark")}
        if kinds_dom != [str(k_) for k_ in kinds_doc] or cols_dom != {str(c_) for c_ in cols_doc}:
            ctx.violation("export-attrs", "note kinds / highlight colours after re-parsing %r %r differ from the document's %r %r" % (kinds_dom[:3], sorted(cols_dom)[:3], kinds_doc[:3], sorted(map(str, cols_doc))[:3]), det, {"kind": "attrs"})
            return
    tags = [el.tag for el in frag.iter() if isinstance(el.tag, str)]
    bad = [t for t in tags if t not in allowed]
    if bad:
        ctx.violation("export-escaping", "serialised HTML contains element <%s> that no node or mark produces (text or attribute was not escaped)" % bad[0], det, {"kind": "element"})
        return
    # attribute values
    want_attrs = []

    def collect(c):
        if c[0] == "t":
            ms = c[2]
        else:
            ms = c[3]
            if c[1] == "image":
                a = json.loads(c[2])
                want_attrs.append(("img", {k: str(v) for k, v in a.items() if v is not None}))
            for k in c[4]:
                collect(k)
        return ms

    for c in p[4]:
        collect(c)
    got_imgs = [("img", dict(el.attrib)) for el in frag.iter("img")]
    if got_imgs != want_attrs:
        ctx.violation("export-attrs", "image attributes after re-parsing %r differ from the document's %r" % (got_imgs[:3], want_attrs[:3]), det, {"kind": "attrs"})
        return
    links_doc = set()
    for t in flat.toks(p[4], sch.leaf):
        for m in (t[2] if t[0] == "T" else t[3] if t[0] in ("L", "O") else ()):
            if m[0] == "link":
                links_doc.add(json.loads(m[1])["href"])
    links_html = {el.get("href") for el in frag.iter("a")}
    if links_doc != links_html:
        ctx.violation("export-attrs", "link hrefs after re-parsing %r differ from the document's %r" % (sorted(links_html)[:3], sorted(map(str, links_doc))[:3]), det, {"kind": "href"})
        return
    ctx.cover(["E", sch.id, bool(want_attrs), bool(links_doc), any(x in want for x in "<>&\"'")], nontrivial=True)


def _hostile_attr(orig, rnd):
    def attr_value(owner, name):
        if name in ("href", "src", "title", "alt") and rnd.random() < 0.5:
            v = rnd.choice(['q"x', "a&b", "<i>", "'s", 'x" onload="y', "&amp;"])
            return v
        if name == "order":
            return rnd.randint(1, 4)
        return orig(owner, name)
    return attr_value


def check_roundtrip(ctx, sch, rnd):
    from prosemirror.model import Node
    from prosemirror.model.from_dom import from_html

    g = gen.DocGen(sch, rnd)
    kids = tuple(gen_normal_block(sch, rnd, g) for _ in range(rnd.randint(1, 4)))
    top_attrs = flat.akey(sch.ref.attrs_json(sch.ref.top))
    p = ("n", "doc", top_attrs, (), kids)
    why = sch.ref.why_invalid(p)
    if why is not None:
        ctx.count("roundtrip_generator_invalid")
        return
    d = flat.build(sch.schema, p)
    if flat.pt(d) != p:
        ctx.count("roundtrip_generator_not_normal")
        return
    html = to_html(ctx, sch, d, "roundtrip")
    if html is None:
        return
    back = run_import(ctx, sch, html, "roundtrip", set())
    if back is None:
        return
    ctx.count("roundtrips")
    if sch.id == "rule-zoo":
        ctx.count("roundtrips_rule_zoo")
    ctx.ev()
    bp = flat.pt(back)
    if bp != p or not back.eq(d):
        # locate the first differing token for the mechanism
        a, b = flat.toks(p[4], sch.leaf), flat.toks(bp[4], sch.leaf)
        k = next((i for i, (x, y) in enumerate(zip(a, b)) if x != y), min(len(a), len(b)))
        ta = a[k] if k < len(a) else None
        tb = b[k] if k < len(b) else None
        kind = "space-lost" if ta and ta[0] == "T" and ta[1] == 32 else "marks" if ta and tb and ta[0] == tb[0] == "T" and ta[1] == tb[1] else \
            "code-block" if any(x[0] == "O" and x[1] == "code_block" for x in a[:k + 1][-3:]) else "other"
        ctx.violation("roundtrip", "from_html(to_html(d)) != d: first difference at token %d: %r vs %r; html %s" % (k, ta, tb, html[:300]),
                      {**describe_doc(sch, d), "html": html[:1500], "back": str(back)[:600]}, {"kind": kind})
        return
    feats = [any(c[1] == "code_block" for c in kids if c[0] == "n"), any(c[1] in ("bullet_list", "ordered_list") for c in kids if c[0] == "n")]
    ctx.cover(["R", sch.id] + feats + [len(kids)], nontrivial=True)


def check_styles(ctx, sch, rnd):
    """Inline styles: the bundled style rules (font-style=italic -> em, font-weight -> strong)
    apply exactly to elements whose style attribute has such a declaration."""
    decls = [("font-style", "italic"), ("font-style", "normal"), ("font-weight", "bold"), ("font-weight", "400"), ("color", "red"),
             ("text-decoration", "underline")]
    words = []
    exp = []
    for k in range(rnd.randint(1, 4)):
        ds = rnd.sample(decls, rnd.randint(0, 3))
        sep = rnd.choice([";", "; "])
        style = sep.join("%s%s%s" % (a, rnd.choice([":", ": "]), b) for a, b in ds)
        w = "w%d" % k
        tag = rnd.choice(["span", "span", "b", "i", "code"])
        marks = set()
        if ("font-style", "italic") in ds:
            marks.add("em")
        if any(a == "font-weight" for a, _b in ds):
            marks.add("strong")
        marks |= {"b": {"strong"}, "i": {"em"}, "code": {"code"}}.get(tag, set())
        attr = ' style="%s"' % style if ds or rnd.random() < 0.3 else ""
        words.append("<%s%s>%s</%s>" % (tag, attr, w, tag))
        exp.append((w, marks))
    html = "<p>%s</p>" % " ".join(words)
    doc = run_import(ctx, sch, html, "styles", {"style"})
    if doc is None:
        return
    ctx.count("style_probes", len(exp))
    ctx.ev()
    got = {}
    def visit(n, pos, par, idx):
        if n.is_text:
            for w_ in n.text.split():
                got[w_] = {m.type.name for m in n.marks}

    doc.descendants(visit)
    for w, marks in exp:
        if got.get(w) != marks:
            ctx.violation("style-rule", "word %s of %s has marks %r, the style rules give %r" % (w, html, sorted(got.get(w) or []), sorted(marks)),
                          {"html": html, "schema": sch.id}, {"missing": bool(marks - (got.get(w) or set()))})
            return
    ctx.cover(["S", sch.id, sorted({m for _w, ms in exp for m in ms})], nontrivial=True)


# ------------------------------------------------------------------ driver


def case(ctx, rnd, i):
    sch = schemas.get(rnd.choice(["basic", "list"]))
    k = i % 8
    if k in (0, 1, 2):
        feats = set()
        html = gen_html(rnd, 0, feats, comments=(k == 2))
        if not html.strip():
            html = "<p>x</p>"
        ctx.count("imports")
        if "comment" in feats:
            ctx.count("imports_with_comments")
        ctx.ev()
        if i % 40 == 0:
            ctx.sample({"schema": sch.id, "html": html[:300]})
        for _ in range(1):
            doc = run_import(ctx, sch, html, "import", feats)
            if doc is not None:
                ctx.cover(["I", sch.id, sorted(feats)[:3], doc.child_count > 1], nontrivial=True)
        # a few more fragments per case
        for _ in range(5):
            feats = set()
            html = gen_html(rnd, 0, feats, comments=(k == 2))
            if not html.strip():
                continue
            ctx.count("imports")
            if "comment" in feats:
                ctx.count("imports_with_comments")
            ctx.ev()
            doc = run_import(ctx, sch, html, "import", feats)
            if doc is not None:
                ctx.cover(["I", sch.id, sorted(feats)[:3], doc.child_count > 1], nontrivial=True)
                if rnd.random() < 0.4:
                    run_parse_slice(ctx, sch, html, feats)
    elif k == 3:
        for _ in range(4):
            check_context(ctx, rnd)
        for _ in range(2):
            check_style_context(ctx, rnd)
        for _ in range(2):
            check_context_option(ctx, rnd)
        check_styles(ctx, sch, rnd)
        zoo = zoo_schema()
        for _ in range(4):
            feats = set()
            html = gen_zoo_html(rnd, feats)
            ctx.count("imports_rule_zoo")
            ctx.ev()
            doc = run_import(ctx, zoo, html, "import-zoo", feats)
            if doc is not None:
                zf = sorted(f for f in feats if f.startswith("zoo:"))
                ctx.cover(["Z", zf[:2], doc.child_count > 1], nontrivial=True)
                if rnd.random() < 0.3:
                    run_parse_slice(ctx, zoo, html, feats)
    elif k in (4, 5):
        for _ in range(4):
            check_export(ctx, zoo_schema() if rnd.random() < 0.25 else sch, rnd)
    else:
        for _ in range(4):
            check_roundtrip(ctx, zoo_schema() if rnd.random() < 0.25 else sch, rnd)
