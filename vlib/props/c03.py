"""C03 - a step's position map describes exactly what the step did (DESIGN.md §3 C03)."""
from ..monitors.step import StepMonitor
from . import stepwork

ID = "C03"
LEVEL = "exploration"
RULE = (
    "every successful Step.apply made by the workloads is judged: the map read through for_each "
    "agrees with its raw ranges, the size delta equals the sum of (new-old), and every old token "
    "outside the replaced ranges is found at map(i,+1) in the new document (full token equality for "
    "replace steps, kind+type/unit for markup-only steps). Workloads: primitive steps and every step "
    "emitted by the high-level transform operations; for every history the composed Transform.mapping is "
    "checked to send each untouched token of `before` to its place in the final document. distinct = (schema, step class, emitting "
    "operation, number of ranges, grows, shrinks); trivial = empty map of a replace step."
)
ASSUMPTIONS = ["input documents valid by the reference; only successful applications are judged"]
_mon = None


def cases(tier):
    return 12000 if tier == "quick" else 250000


def floors(tier):
    f = {"distinct_nontrivial": 60, "history_mappings": 1000, "history_tokens_tracked": 5000}
    for k in ("ReplaceStep", "ReplaceAroundStep", "AddMarkStep", "RemoveMarkStep", "AddNodeMarkStep", "RemoveNodeMarkStep", "AttrStep", "DocAttrStep"):
        f["map_events:" + k] = 200
    return f


def setup(ctx):
    global _mon
    _mon = StepMonitor(ctx, c03=True)
    _mon.arm()


def case(ctx, rnd, i):
    if i == 0:
        stepwork.repo_tests_workload(ctx, ID)
        return
    if i % 2 == 1:
        from . import opwork

        opwork.transform_workload(ctx, rnd, _mon)
    else:
        stepwork.primitive_workload(ctx, rnd, _mon)
