"""C12 - structure helpers approve only edits that then succeed and keep content intact."""
from .. import flat, gen, genops, gensteps, schemas
from ..budget import StepBudgetExceeded
from ..monitors import step as stepmon
from . import opwork
from .common import describe_doc, other_docs

ID = "C12"
LEVEL = "exploration"
RULE = (
    "case = one valid document of a bundled schema or variant (random well-founded schemas for the "
    "'performed edit' clause only): can_split at every (sampled) position x depth 1..3 x optional "
    "types_after; can_join / join_point(+-1) at every position; lift_target and find_wrapping (every "
    "non-leaf type as wrapper) on the block ranges of sampled position pairs, with and without "
    "predicate; insert_point for every node type; drop_point for slices of every open depth. Whenever a "
    "helper approves, the edit is performed on a fresh Transform and must return a valid document; "
    "split/join/lift/wrap must keep the leaf sequence exactly; results must be in range. distinct = "
    "(schema, helper, approved?, depth/target/wrapper-length class, outcome); trivial = refusals at "
    "depth-0 positions."
)
ASSUMPTIONS = ["payload nodes / slices are valid; types_after entries are textblock types without required attributes"]


def cases(tier):
    return 3000 if tier == "quick" else 80000


def floors(tier):
    return {"helper_calls": 30000, "approved:can_split": 300, "approved:can_join": 100, "approved:join_point": 100, "approved:lift_target": 100,
            "approved:find_wrapping": 300, "approved:insert_point": 300, "approved:drop_point": 300, "distinct_nontrivial": 120}


def case(ctx, rnd, i):
    from prosemirror.model import Fragment, Slice
    from prosemirror.transform import ReplaceStep, Transform, structure

    if rnd.random() < 0.8:
        sch = schemas.get(rnd.choice(schemas.TOTALITY + ("section", "section")))  # joins across different container types
    else:
        sch = schemas.random_schema(rnd)
        if sch is None:
            ctx.count("schema_gen_failed")
            return
    stepmon.register(sch)
    S, rs, leaf = sch.schema, sch.ref, sch.leaf
    total = sch.totality
    g = gen.DocGen(sch, rnd, wide=0.1)
    d, p = g.doc()
    tk = flat.toks(p[4], leaf)
    n = len(tk)
    old_leaves = flat.leafseq(tk)
    base = describe_doc(sch, d)
    sid = sch.cls if sch.cls == "random" else sch.id
    if i % 20 == 0:
        ctx.sample({"schema": sch.id, "doc": str(d)[:200]})
    positions = list(range(n + 1)) if n <= 24 else sorted(rnd.sample(range(n + 1), 24))
    # always: the positions between two adjacent non-leaf siblings (where joins happen)
    seams = [k for k in range(1, n) if tk[k - 1][0] == "C" and tk[k][0] == "O"]
    positions = sorted(set(positions) | set(seams if len(seams) <= 16 else rnd.sample(seams, 16)))
    W = opwork.watch()
    lim = opwork.line_budget(n, 40)

    def helper(name, fn, args):
        """Call a helper under the watchdog.  -> (ok, result)"""
        ctx.count("helper_calls")
        ctx.ev()
        try:
            return True, W.run(lim, fn)
        except BaseException as e:
            if total:
                ctx.violation("helper-raised", "%s%r raised %s: %s" % (name, args, type(e).__name__, e), {**base, "helper": name, "args": repr(args)},
                              {"helper": name, "exc": type(e).__name__})
            else:
                ctx.count("helper_raised_outside_totality_class")
            return False, None

    def perform(name, args, fn, keep_leaves, mech=None):
        """The approved edit must return a valid document."""
        ctx.count("approved:" + name)
        tr = Transform(d)
        det = {**base, "helper": name, "args": repr(args)}
        m = {"helper": name, **(mech or {})}
        try:
            W.run(lim, fn, tr)
        except BaseException as e:
            if total:
                ctx.violation("approved-edit-failed", "%s%r approved the edit, which then raised %s: %s" % (name, args, type(e).__name__, e), det,
                              {**m, "exc": type(e).__name__, "msg": str(e)[:40]})
            else:
                ctx.count("approved_edit_failed_outside_totality_class")
            return None
        why = rs.why_invalid(flat.pt(tr.doc))
        if why is not None:
            ctx.violation("edit-invalid-result", "%s%r: the performed edit returned an invalid document (%s): %s" % (name, args, why, str(tr.doc)[:300]), det, m)
            return None
        if keep_leaves:
            nl = flat.leafseq(flat.toks(flat.pt(tr.doc)[4], leaf))
            if nl != old_leaves:
                ctx.violation("leaf-sequence-changed", "%s%r: the edit changed the sequence of text and leaf nodes: %s" % (name, args, str(tr.doc)[:300]), det, m)
                return None
        return tr

    tbs = [x for x, t in rs.nodes.items() if t.inline_content and not t.inline and not t.required_attrs]
    # ---- can_split / split
    for pos in positions:
        for depth in (1, 2, 3):
            ta = None
            inner = tk[flat.open_stack(tk, pos)[-1]][1] if flat.open_stack(tk, pos) else rs.top
            if tbs and rnd.random() < 0.3 and rs.nodes[inner].inline_content:
                # types_after as editors use it: another textblock type for the part after the split
                ta = [structure.NodeTypeWithAttrs(S.nodes[rnd.choice(tbs)], None)]
            if depth >= 2 and rnd.random() < 0.3:
                # one entry per split level, outermost first: the ancestor's own type and attrs
                # (what splitting a list item does), nothing, or another textblock type innermost
                rp_ = d.resolve(pos)
                if rp_.depth >= depth:
                    ta = []
                    for lv in range(rp_.depth - depth + 1, rp_.depth + 1):
                        nd_ = rp_.node(lv)
                        if lv == rp_.depth and tbs and nd_.inline_content and rnd.random() < 0.4:
                            ta.append(structure.NodeTypeWithAttrs(S.nodes[rnd.choice(tbs)], None))
                        elif rnd.random() < 0.25 and ta:
                            ta.append(None)
                        else:
                            ta.append(structure.NodeTypeWithAttrs(nd_.type, nd_.attrs))
                    ctx.count("can_split_types_after_per_level")
            ok, res = helper("can_split", lambda: structure.can_split(d, pos, depth, ta), (pos, depth, ta and [x and x.type.name for x in ta]))
            if not ok:
                continue
            if res:
                tr = perform("can_split", (pos, depth, ta and [x and x.type.name for x in ta]), lambda t: t.split(pos, depth, ta), True, {"depth": depth, "types_after": ta is not None})
                ctx.cover([sid, "can_split", True, depth, ta is not None, tr is not None])
            else:
                ctx.cover([sid, "can_split", False, depth], nontrivial=False)
                if not total or rnd.random() < 0.1:
                    # unapproved edits that nevertheless return must still be valid and keep leaves
                    _unapproved(ctx, sch, d, old_leaves, lambda t: t.split(pos, depth, ta), "split", base)
    # ---- can_join / join_point / join
    for pos in positions:
        ok, res = helper("can_join", lambda: structure.can_join(d, pos), (pos,))
        if ok and res:
            perform("can_join", (pos,), lambda t: t.join(pos), True)
            ctx.cover([sid, "can_join", True])
        for dr in (-1, 1):
            ok, q = helper("join_point", lambda: structure.join_point(d, pos, dr), (pos, dr))
            if not ok or q is None:
                continue
            if not (0 <= q <= n):
                ctx.violation("out-of-range", "join_point(%d,%d) = %r for a document of size %d" % (pos, dr, q, n), {**base, "helper": "join_point"}, {"helper": "join_point"})
                continue
            perform("join_point", (pos, dr, "->", q), lambda t: t.join(q), True, {"dir": dr})
            ctx.cover([sid, "join_point", dr, q != pos])
    # ---- block ranges: lift_target / find_wrapping
    pairs = [(a, b) for a in positions for b in positions if a <= b]
    if len(pairs) > 30:
        pairs = rnd.sample(pairs, 30)
    wrappers = [x for x, t in rs.nodes.items() if not t.is_leaf and not t.is_text and x != rs.top]
    for a, b in pairs:
        try:
            ra, rb = d.resolve(a), d.resolve(b)
            pred = None
            if rnd.random() < 0.2:
                pn = rnd.choice(list(rs.nodes))
                pred = lambda node, pn=pn: node.type.name == pn  # noqa: E731
            rng = ra.block_range(rb, pred) if pred else ra.block_range(rb)
        except Exception:
            continue  # C09's business
        if rng is None:
            continue
        ok, t = helper("lift_target", lambda: structure.lift_target(rng), (a, b))
        if ok and t is not None:
            if not (0 <= t < rng.depth):
                ctx.violation("out-of-range", "lift_target = %r for a range of depth %d" % (t, rng.depth), {**base, "helper": "lift_target", "range": [a, b]}, {"helper": "lift_target"})
            else:
                levels = rng.depth - t
                first_in_parent = rng.start_index == 0
                perform("lift_target", (a, b, "->", t), lambda tr_: tr_.lift(rng, t), True,
                        {"levels": min(levels, 3), **_lift_remainder_invalid(rs, rng, t)})
                ctx.cover([sid, "lift_target", min(levels, 3), first_in_parent])
        for wn in (wrappers if len(wrappers) <= 4 else rnd.sample(wrappers, 4)):
            at = g.attrs(rs.nodes[wn].attrs, wn)
            ok, w = helper("find_wrapping", lambda: structure.find_wrapping(rng, S.nodes[wn], at), (a, b, wn))
            if ok and w is not None:
                perform("find_wrapping", (a, b, wn, [x.type.name for x in w]), lambda tr_: tr_.wrap(rng, w), True, {"chain": min(len(w), 3)})
                ctx.cover([sid, "find_wrapping", min(len(w), 3)])
    # ---- insert_point
    for pos in (positions if len(positions) <= 12 else rnd.sample(positions, 12)):
        for tn in rs.nodes:
            if tn in ("text", rs.top):
                continue
            ok, q = helper("insert_point", lambda: structure.insert_point(d, pos, S.nodes[tn]), (pos, tn))
            if not ok or q is None:
                continue
            if not (0 <= q <= n):
                ctx.violation("out-of-range", "insert_point(%d,%s) = %r" % (pos, tn, q), {**base, "helper": "insert_point"}, {"helper": "insert_point"})
                continue
            nd = genops.valid_node(sch, g, tn)
            if nd is None:
                continue
            perform("insert_point", (pos, tn, "->", q), lambda tr_: tr_.step(ReplaceStep(q, q, Slice(Fragment.from_(nd), 0, 0))), False)
            ctx.cover([sid, "insert_point", q == pos, q < pos])
    # ---- drop_point
    others = other_docs(sch, rnd, 2)
    slices = gensteps.valid_slices(sch, rnd, others, per=4)
    for tn in rnd.sample(list(rs.nodes), min(3, len(rs.nodes))):
        if tn not in ("text", rs.top):
            nd = genops.valid_node(sch, g, tn)
            if nd is not None:
                slices.append(Slice(Fragment.from_(nd), 0, 0))
    slices.append(Slice.empty)
    for pos in (positions if len(positions) <= 10 else rnd.sample(positions, 10)):
        for s in slices:
            ok, q = helper("drop_point", lambda: structure.drop_point(d, pos, s), (pos, str(s)[:60]))
            if not ok or q is None:
                continue
            if not (0 <= q <= n):
                ctx.violation("out-of-range", "drop_point(%d) = %r" % (pos, q), {**base, "helper": "drop_point"}, {"helper": "drop_point"})
                continue
            closed = s.open_start == 0 and s.open_end == 0 and s.size > 0
            tr = perform("drop_point", (pos, str(s)[:80], "->", q), lambda tr_: tr_.replace(q, q, s), False,
                         {"closed": closed, "slice_node_open_both_sides_non_prefix":
                          gensteps.both_open_non_prefix(rs, flat.pt_frag(s.content), s.open_start, s.open_end)})
            if tr is not None and closed and total:
                # the whole slice must arrive
                st = flat.toks(flat.pt_frag(s.content), leaf)
                want = flat.leafseq(st)
                got = flat.leafseq(flat.toks(flat.pt(tr.doc)[4], leaf))
                stripped = lambda xs: [(t[0], t[1]) if t[0] == "T" else (t[0], t[1], t[2]) for t in xs]  # noqa: E731
                if len(got) != len(old_leaves) + len(want) or not _contains_run(stripped(got), stripped(want)):
                    ctx.violation("drop-incomplete", "drop_point(%d, %s) = %d but Transform.replace(%d,%d,slice) did not insert the whole slice: %s"
                                  % (pos, str(s)[:80], q, q, q, str(tr.doc)[:300]), {**base, "helper": "drop_point", "pos": pos, "slice": s.to_json()},
                                  {"helper": "drop_point", "steps": len(tr.steps)})
            ctx.cover([sid, "drop_point", closed, s.open_start, s.open_end, q == pos])


def _lift_remainder_invalid(rs, rng, target):
    """Does lifting the range to depth `target` split an ancestor so that one of the two
    copies is left with content its type does not accept, and at which level?  (Reference
    regexes on the child type sequences; positions read from the resolved range.)
    lift_target itself verifies (can_cut) the remainders at the range's own level exactly; at
    outer levels it ignores the copy of the inner ancestor that stays behind."""
    from ..refschema import matches

    frm, to = rng.from_, rng.to
    split_after = split_before = False
    inner_level = outer_level = False
    for d in range(rng.depth, target, -1):
        node = frm.node(d)
        kids = [c.type.name for c in node.content.content]
        i0 = frm.index(d)
        i1 = to.index_after(d)
        after = kids[i1:]
        before = kids[:i0]
        if d < rng.depth:
            inner = frm.node(d + 1).type.name
            if split_after:
                after = [inner] + after
            if split_before:
                before = before + [inner]
        bad = False
        if after or split_after:
            split_after = True
            if not matches(rs.nodes[node.type.name].regex, after):
                bad = True
        if before or split_before:
            split_before = True
            if not matches(rs.nodes[node.type.name].regex, before):
                bad = True
        if bad:
            if d == rng.depth:
                inner_level = True
            else:
                outer_level = True
    return {"remainder_invalid": inner_level or outer_level, "remainder_invalid_at_range_level": inner_level,
            "remainder_invalid_at_outer_level": outer_level}


def _contains_run(big, small):
    if not small:
        return True
    for i in range(len(big) - len(small) + 1):
        if big[i:i + len(small)] == small:
            return True
    return False


def _unapproved(ctx, sch, d, old_leaves, fn, name, base):
    from prosemirror.transform import Transform

    tr = Transform(d)
    try:
        opwork.watch().run(opwork.line_budget(d.content.size, 40), fn, tr)
    except BaseException:
        return
    ctx.count("unapproved_edits_returned")
    why = sch.ref.why_invalid(flat.pt(tr.doc))
    if why is not None:
        ctx.violation("edit-invalid-result", "%s (not approved by its helper) returned an invalid document (%s)" % (name, why), {**base, "helper": name}, {"helper": name, "approved": False})
        return
    nl = flat.leafseq(flat.toks(flat.pt(tr.doc)[4], sch.leaf))
    if nl != old_leaves:
        ctx.violation("leaf-sequence-changed", "%s (not approved) changed the leaf sequence" % name, {**base, "helper": name}, {"helper": name, "approved": False})
