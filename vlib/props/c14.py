"""C14 - mark sets are canonical and respect exclusion / permission rules."""
import itertools
import json

from .. import flat, gen
from ..refschema import RefSchema

ID = "C14"
LEVEL = "exploration"
RULE = (
    "part A (exhaustive): 3 mark types a,b,c, every one of the 2^9 exclusion relations (each type's "
    "'excludes' is any subset incl. itself, also written as '_' when full and omitted when {self}); "
    "universe {a(k=1), a(k=2), b, c}; BFS over all mark sets reachable from the empty set by "
    "add_to_set/remove_from_set; at every reached set every universe mark is added, removed, looked "
    "up, and the set is filtered for 4 parent types (marks '_', 'a b', a group, ''). part B: random "
    "configurations of <=5 types with attrs, groups, '_' and '' and random operation sequences. "
    "distinct = (exclusion relation class, operation, effect: unchanged / replaced-k / inserted-at-i "
    "/ removed / filtered-k); trivial = adding to the empty set."
)
ASSUMPTIONS = ["input sets are canonical (they are reached by the library's own add/remove from the empty set, and checked canonical by the reference at every step)"]
NAMES = ["a", "b", "c"]
SUBSETS = [tuple(s) for k in range(4) for s in itertools.combinations(NAMES, k)]
CONFIGS = list(itertools.product(SUBSETS, repeat=3))  # 512
CHUNK = 4


def EXHAUSTIVE(tier):
    return "all 512 exclusion relations over 3 mark types x all mark sets reachable by add/remove over {a(k=1),a(k=2),b,c} x 4 parent types"


def cases(tier):
    return len(CONFIGS) // CHUNK + (3000 if tier == "quick" else 80000)


def floors(tier):
    return {"configs": 512, "add_calls": 10000, "filter_calls": 5000, "distinct_nontrivial": 40}


def build(spec_marks, node_marks):
    from prosemirror.model import Schema

    nodes = {"doc": {"content": "block+"}, "text": {"group": "inline"}}
    for i, ms in enumerate(node_marks):
        s = {"content": "inline*", "group": "block"}
        if ms is not None:
            s["marks"] = ms
        nodes["p%d" % i] = s
    spec = {"nodes": nodes, "marks": spec_marks}
    return Schema(spec), RefSchema(spec), spec


def key(m):
    return flat.mkey(m)


def keys(ms):
    return tuple(key(m) for m in ms)


def twin(m):
    import copy

    return m.type.create(copy.deepcopy(m.attrs))


def explore(ctx, S, rs, spec, universe, tag, rnd=None, maxsteps=None):
    from prosemirror.model import Mark

    ranks = {n: i for i, n in enumerate(rs.marks)}
    det0 = {"marks_spec": {k: {x: y for x, y in v.items()} for k, v in spec["marks"].items()},
            "node_marks": {n: s.get("marks") for n, s in spec["nodes"].items() if n.startswith("p")}}

    def bad(oracle, msg, **mech):
        ctx.violation(oracle, msg, {**det0, "case": tag}, mech)

    start = []
    seen = {(): start}
    work = [start]
    steps = 0
    relclass = _relclass(rs)
    while work:
        cur = work.pop() if rnd is None else work.pop(rnd.randrange(len(work)))
        ck = keys(cur)
        if not rs.canonical(ck):
            bad("reached-noncanonical", "reachable mark set %r is not canonical" % (ck,))
            continue
        for m0 in universe:
            steps += 1
            # an equal mark that is a different object than the one possibly in the set (marks are
            # values: set operations go by type and attributes, not by object identity)
            m = twin(m0) if steps % 2 else m0
            mk = key(m)
            snapshot = list(cur)
            # ---- add
            ctx.count("add_calls")
            ctx.ev()
            try:
                got = m.add_to_set(cur)
            except Exception as e:
                bad("add-raised", "add_to_set raised %s: %s on %r + %r" % (type(e).__name__, e, ck, mk), exc=type(e).__name__)
                continue
            gk = keys(got)
            exp = rs.ref_add(mk, ck)
            if list(cur) != snapshot:
                bad("add-mutated-input", "add_to_set mutated its input set %r" % (ck,))
            if gk != exp:
                excl_new = [o for o in ck if rs.excludes(mk[0], o[0])]
                excl_by = [o for o in ck if rs.excludes(o[0], mk[0])]
                bad("add", "%r.add_to_set(%r) = %r, documented result %r" % (mk, ck, gk, exp),
                    new_excludes=len(excl_new), excluded_by=len(excl_by), first_excluded_index=(ck.index(excl_new[0]) if excl_new else None),
                    size=len(ck))
            else:
                eff = "unchanged" if gk == ck else "replaced-%d" % (len(ck) + 1 - len(gk)) if len(gk) <= len(ck) else "inserted-at-%d-of-%d" % (gk.index(mk), len(gk))
                ctx.cover([relclass, "add", eff], nontrivial=bool(ck))
                if gk not in seen:
                    seen[gk] = got
                    work.append(got)
            # ---- remove / membership
            ctx.count("remove_calls")
            try:
                rem = m.remove_from_set(cur)
                isin = m.is_in_set(cur)
            except Exception as e:
                bad("remove-raised", "remove_from_set/is_in_set raised %s: %s" % (type(e).__name__, e), exc=type(e).__name__)
                continue
            rk = keys(rem)
            expr = tuple(o for o in ck if o != mk)
            if rk != expr:
                bad("remove", "%r.remove_from_set(%r) = %r, expected %r" % (mk, ck, rk, expr))
            elif rk not in seen:
                seen[rk] = rem
                work.append(rem)
            if bool(isin) != (mk in ck):
                bad("is_in_set", "%r.is_in_set(%r) = %r" % (mk, ck, isin))
            ctx.cover([relclass, "remove", mk in ck, len(ck)], nontrivial=mk in ck)
            # ---- type-level
            mt = m.type
            try:
                tr = keys(mt.remove_from_set(cur))
                ti = mt.is_in_set(cur)
            except Exception as e:
                bad("type-ops-raised", "MarkType.remove_from_set/is_in_set raised %s: %s" % (type(e).__name__, e), exc=type(e).__name__)
                continue
            if tr != tuple(o for o in ck if o[0] != mt.name):
                bad("type-remove", "MarkType(%s).remove_from_set(%r) = %r" % (mt.name, ck, tr))
            first = next((o for o in ck if o[0] == mt.name), None)
            if (key(ti) if ti is not None else None) != first:
                bad("type-is_in_set", "MarkType(%s).is_in_set(%r) = %r, expected %r" % (mt.name, ck, ti, first))
            for other in S.marks.values():
                if mt.excludes(other) != rs.excludes(mt.name, other.name):
                    bad("excludes", "MarkType(%s).excludes(%s) = %r, spec says %r" % (mt.name, other.name, mt.excludes(other), rs.excludes(mt.name, other.name)))
        # ---- same_set / set_from / eq on the reached set
        perm = list(cur)
        if rnd is not None:
            rnd.shuffle(perm)
        else:
            perm.reverse()
        try:
            before_perm = list(perm)
            sf = keys(Mark.set_from(perm))
            if perm != before_perm or [id(x) for x in perm] != [id(x) for x in before_perm]:
                bad("set_from-mutated-input", "set_from reordered the list it was given")
            exp_sf = tuple(sorted(keys(perm), key=lambda o: ranks[o[0]]))
            if sf != exp_sf:
                bad("set_from", "set_from(%r) = %r, expected rank-sorted %r" % (keys(perm), sf, exp_sf))
            if Mark.set_from(None) != [] or Mark.set_from([]) != []:
                bad("set_from", "set_from(None/[]) is not the empty set")
            if cur and keys(Mark.set_from(cur[0])) != (ck[0],):
                bad("set_from", "set_from(single mark) wrong")
            for ok, other in seen.items():
                if Mark.same_set(cur, other) != (ok == ck) or Mark.same_set([twin(x) for x in other], cur) != (ok == ck):
                    bad("same_set", "same_set(%r, %r) = %r (or with equal copies of the marks: %r)" % (ck, ok, Mark.same_set(cur, other), Mark.same_set([twin(x) for x in other], cur)))
                    break
            for x in universe:
                for y in universe:
                    if x.eq(y) != (key(x) == key(y)) or twin(x).eq(y) != (key(x) == key(y)):
                        bad("eq", "Mark.eq(%r,%r) = %r (equal copy: %r)" % (key(x), key(y), x.eq(y), twin(x).eq(y)))
        except Exception as e:
            bad("set-ops-raised", "set_from/same_set/eq raised %s: %s" % (type(e).__name__, e), exc=type(e).__name__)
        # ---- permission filtering per parent type
        for pname, pt in S.nodes.items():
            if not pname.startswith("p") and pname != "doc":
                continue
            ctx.count("filter_calls")
            ctx.ev()
            snapshot = list(cur)
            try:
                am = keys(pt.allowed_marks(cur))
                al = pt.allows_marks(cur)
            except Exception as e:
                bad("filter-raised", "allowed_marks/allows_marks raised %s: %s" % (type(e).__name__, e), exc=type(e).__name__)
                continue
            expf = tuple(o for o in ck if rs.allows_mark(pname, o[0]))
            if list(cur) != snapshot:
                bad("filter-mutated-input", "allowed_marks mutated its input")
            if am != expf:
                bad("allowed_marks", "%s.allowed_marks(%r) = %r, expected %r (marks spec %r)" % (pname, ck, am, expf, spec["nodes"][pname].get("marks")),
                    first_dropped_index=next((i for i, o in enumerate(ck) if not rs.allows_mark(pname, o[0])), None), kept=len(expf), size=len(ck))
            if al != (expf == ck):
                bad("allows_marks", "%s.allows_marks(%r) = %r" % (pname, ck, al))
            for mt in S.marks.values():
                if pt.allows_mark_type(mt) != rs.allows_mark(pname, mt.name):
                    bad("allows_mark_type", "%s.allows_mark_type(%s) = %r" % (pname, mt.name, pt.allows_mark_type(mt)))
            ctx.cover([relclass, "filter", len(ck) - len(expf), len(ck)], nontrivial=0 < len(expf) < len(ck))
        if maxsteps is not None and steps > maxsteps:
            break
    ctx.count("sets_reached", len(seen))
    ctx.count("max_sets_per_config", 0)
    if len(seen) > ctx.counters.get("max_set_count", 0):
        ctx.counters["max_set_count"] = len(seen)


def _relclass(rs):
    names = list(rs.marks)
    selfx = sum(1 for n in names if rs.excludes(n, n))
    asym = sum(1 for a in names for b in names if a != b and rs.excludes(a, b) and not rs.excludes(b, a))
    mutual = sum(1 for a in names for b in names if a < b and rs.excludes(a, b) and rs.excludes(b, a))
    return "self%d-asym%d-mut%d" % (selfx, min(asym, 3), min(mutual, 3))


def config_spec(cfg, variant):
    marks = {}
    for n, ex in zip(NAMES, cfg):
        s = {}
        if n == "a":
            s["attrs"] = {"k": {"default": 1}}
        if n in ("a", "b"):
            s["group"] = "g"
        if tuple(ex) == (n,) and variant % 2 == 0:
            pass  # default: excludes itself
        elif len(ex) == 3 and variant % 2 == 1:
            s["excludes"] = "_"
        else:
            s["excludes"] = " ".join(ex)
        marks[n] = s
    return marks


def case(ctx, rnd, i):
    nA = len(CONFIGS) // CHUNK
    if i < nA:
        for j, cfg in enumerate(CONFIGS[i * CHUNK:(i + 1) * CHUNK]):
            marks = config_spec(cfg, i * CHUNK + j)
            S, rs, spec = build(marks, ["_", "a b", "g c", "", None])
            U = [S.marks["a"].create({"k": 1}), S.marks["a"].create({"k": 2}), S.marks["b"].create(), S.marks["c"].create()]
            ctx.count("configs")
            explore(ctx, S, rs, spec, U, {"config": [list(x) for x in cfg]})
        return
    # random configuration
    n = rnd.randint(2, 5)
    names = ["m%d" % k for k in range(n)]
    groups = ["g", "mg"] if rnd.random() < 0.5 else ["g1", "g2"]  # "g" is a substring of "mg": names must match whole words
    marks = {}
    for nm in names:
        s = {}
        r = rnd.random()
        if r < 0.15:
            s["excludes"] = "_"
        elif r < 0.3:
            s["excludes"] = ""
        elif r < 0.65:
            s["excludes"] = " ".join(rnd.sample(names + groups[:1] + groups[:1], rnd.randint(1, min(3, n))))
        if rnd.random() < 0.4:
            s["group"] = rnd.choice(groups + [" ".join(groups)])
        if rnd.random() < 0.5:
            s["attrs"] = {"k": ({"default": 0} if rnd.random() < 0.6 else {}), **({"j": {"default": None}} if rnd.random() < 0.3 else {})}
        if rnd.random() < 0.2:
            s["inclusive"] = False
        marks[nm] = s
    if not any(groups[0] in (s.get("group") or "").split(" ") for s in marks.values()):
        marks[names[0]]["group"] = groups[0]
    node_marks = ["_", "", None]
    for _ in range(2):
        node_marks.append(" ".join(rnd.sample(names + [groups[0]], rnd.randint(1, min(3, n)))))
    try:
        S, rs, spec = build(marks, node_marks)
    except Exception as e:
        ctx.count("random_config_rejected:%s" % type(e).__name__)
        return
    U = []
    for nm in names:
        mt = S.marks[nm]
        if "k" in mt.attrs:
            vs = rnd.sample([0, 1, 2, "x", [1], {"a": 1}, "", []], 2)
            if rnd.random() < 0.5:
                # a value and its nearest neighbour ([1] / [1, 0], {"a": 1} / {"a": 1, "n0": 0}, 0 / "" ...)
                nv = gen.near_value(rnd, vs[0])
                vs[1] = nv if nv is not None else vs[1]  # None counts as "not given" for a required attribute
            for v in vs:
                U.append(mt.create({"k": v}))
        else:
            U.append(mt.create())
        if getattr(mt, "instance", None) is not None and mt.attrs and rnd.random() < 0.7:
            # the type's shared all-defaults instance (what schema.mark(name) returns); explore()
            # pairs it with equal marks that are separate objects
            U.append(mt.create())
    ctx.count("random_configs")
    ctx.sample({"marks": {k: dict(v) for k, v in marks.items()}, "node_marks": node_marks})
    explore(ctx, S, rs, spec, U, {"random": True}, rnd=rnd, maxsteps=1500)
