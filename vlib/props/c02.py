"""C02 - replacing a range is exactly a splice of the flat token sequence.

Boundary events: Node.slice / Node.cut / Fragment.cut / Node.replace (+ Slice.size,
open_start, open_end).  Oracle: vlib.flat (tokens, reference cut, parse) and the reference
validator.  See DESIGN.md §3 C02.
"""
from .. import flat, gen, schemas
from ..refschema import first
from .common import pick_schema, other_docs, describe_doc

ID = "C02"
LEVEL = "exploration"
RULE = (
    "case = one generated valid document (catalogue or random well-founded schema) with all "
    "(small doc) or sampled (from,to) pairs: slice/cut compared with the reference cut as plain "
    "trees; replace with slices cut from the same and 2-3 other documents at every open depth, "
    "compared with the token splice parsed back into a tree. distinct = (schema class/id, "
    "depth(from), depth(to), open_start, open_end, outcome, text-merge-at-seam); trivial = closed "
    "slice between positions of the same parent."
)
ASSUMPTIONS = [
    "documents <= ~90 tokens, depth <= 6; slices are cut from valid documents so their interior is valid",
    "a ReplaceError on a reference-valid splice is tolerated only when two joined nodes of different "
    "type have disjoint first-child sets (documented check_join conservatism); tolerated cases are counted",
]
WALL = {"quick": 600, "thorough": 7200}


def cases(tier):
    return 5000 if tier == "quick" else 120000


def floors(tier):
    return {"replace_returned": 2000, "replace_raised": 500, "slice_checked": 3000, "distinct_nontrivial": 60}


def _root(p, children):
    return ("n", p[1], p[2], p[3], children)


def case(ctx, rnd, i):
    from prosemirror.model import ReplaceError, Slice

    sch = pick_schema(rnd, random_share=0.25)
    if sch is None:
        ctx.count("schema_gen_failed")
        return
    rs, leaf = sch.ref, sch.leaf
    g = gen.DocGen(sch, rnd, wide=0.2)
    d, p = g.doc()
    tk = flat.toks(p[4], leaf)
    n = len(tk)
    prof = flat.depth_profile(tk)
    if d.content.size != n:
        ctx.violation("size", "content.size %d != token count %d" % (d.content.size, n), describe_doc(sch, d))
        return
    ctx.sample({"schema": sch.id, "doc": str(d)[:300], "tokens": n})

    # ---- slice / cut at all or sampled pairs
    if n <= 14:
        pairs = [(a, b) for a in range(n + 1) for b in range(a, n + 1)]
    else:
        pairs = []
        for _ in range(70):
            a = rnd.randint(0, n)
            b = rnd.randint(a, n)
            pairs.append((a, b))
    for a, b in pairs:
        _check_slice(ctx, sch, d, p, tk, prof, a, b, rnd)

    # ---- replace
    others = other_docs(sch, rnd, 2)
    sources = [(d, p)] + others
    slices = []
    for sd, sp in sources:
        stk = flat.toks(sp[4], leaf)
        m = len(stk)
        for _ in range(4 if m else 0):
            a = rnd.randint(0, m)
            b = rnd.randint(a, m)
            try:
                s = sd.slice(a, b)
            except Exception:
                continue  # judged by _check_slice on its own document
            exp = flat.ref_slice(sp[4], a, b, leaf) if a < b else ((), 0, 0)
            if (flat.pt_frag(s.content), s.open_start, s.open_end) != exp:
                continue
            slices.append(s)
            if a < b and rnd.random() < 0.35:
                from .. import gensteps
                rr = gensteps.reroot(sd, sp, a, b, leaf, rnd)
                if rr is not None:
                    ctx.count("rerooted_slices")
                    slices.append(rr)
    slices.append(Slice.empty)
    sprof = {}
    for s in slices:
        sc = flat.pt_frag(s.content)
        stoks = flat.toks(sc, leaf)
        inner = stoks[s.open_start : len(stoks) - s.open_end]
        # candidate (from,to): half uniform, half depth-compatible
        cand = []
        for _ in range(6):
            a = rnd.randint(0, n)
            b = rnd.randint(a, n)
            cand.append((a, b))
        need = s.open_start - s.open_end
        compat = [(a, b) for a in range(n + 1) if prof[a] >= s.open_start for b in range(a, n + 1) if prof[a] - prof[b] == need]
        if compat:
            for _ in range(8):
                cand.append(rnd.choice(compat))
        for a, b in cand:
            _check_replace(ctx, sch, d, p, tk, prof, a, b, s, sc, inner)


def _check_slice(ctx, sch, d, p, tk, prof, a, b, rnd):
    leaf = sch.leaf
    ctx.count("slice_checked")
    ctx.ev()
    exp = flat.ref_slice(p[4], a, b, leaf) if a < b else ((), 0, 0)
    try:
        s = d.slice(a, b)
        got = (flat.pt_frag(s.content), s.open_start, s.open_end)
        sz = s.size
    except Exception as e:
        ctx.violation("slice-raised", "Node.slice(%d,%d) raised %s: %s" % (a, b, type(e).__name__, e),
                      {**describe_doc(sch, d), "from": a, "to": b}, {"exc": type(e).__name__})
        return
    if got != exp:
        ctx.violation("slice", "Node.slice(%d,%d) = %r, reference cut = %r" % (a, b, got, exp),
                      {**describe_doc(sch, d), "from": a, "to": b})
        return
    if sz != b - a:
        ctx.violation("slice-size", "slice(%d,%d).size == %d" % (a, b, sz), {**describe_doc(sch, d), "from": a, "to": b})
    stoks = flat.toks(got[0], leaf)
    if stoks[got[1] : len(stoks) - got[2]] != tk[a:b]:
        ctx.violation("slice-tokens", "slice tokens differ from tok[from:to]", {**describe_doc(sch, d), "from": a, "to": b})
    ctx.cover(("slice", sch.cls if sch.cls == "random" else sch.id, prof[a], prof[b], got[1], got[2]), nontrivial=got[1] + got[2] > 0)
    # include_parents / cut variants on a share of the pairs
    r = rnd.random()
    if r < 0.3 and a < b:
        try:
            s2 = d.slice(a, b, True)
            got2 = (flat.pt_frag(s2.content), s2.open_start, s2.open_end)
        except Exception as e:
            ctx.violation("slice-raised", "Node.slice(%d,%d,True) raised %s: %s" % (a, b, type(e).__name__, e),
                          {**describe_doc(sch, d), "from": a, "to": b}, {"exc": type(e).__name__})
            return
        exp2 = (flat.cut_children(p[4], a, b, leaf), prof[a], prof[b])
        ctx.count("slice_parents_checked")
        if got2 != exp2:
            ctx.violation("slice-parents", "slice(%d,%d,include_parents) = %r, reference %r" % (a, b, got2, exp2),
                          {**describe_doc(sch, d), "from": a, "to": b})
    elif r < 0.6:
        try:
            c1 = flat.pt(d.cut(a, b))
            c2 = flat.pt_frag(d.content.cut(a, b))
            c3 = flat.pt_frag(d.content.cut(a)) if rnd.random() < 0.3 else None
        except Exception as e:
            ctx.violation("cut-raised", "cut(%d,%d) raised %s: %s" % (a, b, type(e).__name__, e),
                          {**describe_doc(sch, d), "from": a, "to": b}, {"exc": type(e).__name__})
            return
        ctx.count("cut_checked")
        expc = flat.cut_children(p[4], a, b, leaf)
        if c1 != _root(p, expc) or c2 != expc:
            ctx.violation("cut", "cut(%d,%d) differs from the reference cut: %r vs %r" % (a, b, c2, expc),
                          {**describe_doc(sch, d), "from": a, "to": b})
        if c3 is not None and c3 != flat.cut_children(p[4], a, len(tk), leaf):
            ctx.violation("cut", "cut(%d) differs from the reference cut" % a, {**describe_doc(sch, d), "from": a})
        # the same on an inner node (text nodes included: positions are UTF-16 units of its text)
        inner = []
        d.descendants(lambda nd, pos, par, idx: inner.append(nd) or True)
        if inner:
            nd = rnd.choice(inner)
            ip = flat.pt(nd)
            m = len(flat.units(ip[1])) if ip[0] == "t" else flat.size(ip[4], leaf)
            x = rnd.randint(0, m)
            y = rnd.randint(x, m)
            if rnd.random() < 0.25:
                x, y = rnd.choice([(0, 0), (m, m), (0, m), (x, x)])
            if ip[0] == "t" and (x == y or x == m):
                x, y = 0, rnd.randint(1, m)  # an empty cut of a text node raises (no empty text nodes), as upstream
            try:
                g1 = flat.pt(nd.cut(x, y))
                g2 = flat.pt(nd.cut(x))
            except Exception as e:
                ctx.violation("cut-raised", "%s.cut(%d,%d) raised %s: %s" % (nd.type.name, x, y, type(e).__name__, e),
                              {**describe_doc(sch, d), "node": str(nd)[:100], "from": x, "to": y}, {"exc": type(e).__name__})
                return
            ctx.count("inner_cut_checked")
            if ip[0] == "t":
                us = flat.units(ip[1])
                e1, e2 = ("t", flat.units_to_str(us[x:y]), ip[2]), ("t", flat.units_to_str(us[x:]), ip[2])
            else:
                e1 = ("n", ip[1], ip[2], ip[3], flat.cut_children(ip[4], x, y, leaf))
                e2 = ("n", ip[1], ip[2], ip[3], flat.cut_children(ip[4], x, m, leaf))
            if g1 != e1 or g2 != e2:
                ctx.violation("cut", "%s.cut(%d,%d) / cut(%d) = %r / %r, reference %r / %r" % (nd.type.name, x, y, x, g1, g2, e1, e2),
                              {**describe_doc(sch, d), "node": str(nd)[:100], "from": x, "to": y}, {"inner": True, "text": ip[0] == "t"})
    # identity law
    if a <= b:
        try:
            r2 = d.replace(a, b, s)
        except Exception as e:
            ctx.violation("reinsert-raised", "d.replace(%d,%d,d.slice(%d,%d)) raised %s: %s" % (a, b, a, b, type(e).__name__, e),
                          {**describe_doc(sch, d), "from": a, "to": b}, {"exc": type(e).__name__})
            return
        ctx.count("reinsert_checked")
        if flat.pt(r2) != p or not r2.eq(d) or not d.eq(r2):
            ctx.violation("reinsert", "re-inserting slice(%d,%d) where it was cut does not give back an equal document: %s" % (a, b, r2),
                          {**describe_doc(sch, d), "from": a, "to": b})


def _spines(sc, os_, oe):
    left, right = [], []
    cur = sc
    for _ in range(os_):
        if not cur or cur[0][0] != "n":
            break
        left.append(cur[0][1])
        cur = cur[0][4]
    cur = sc
    for _ in range(oe):
        if not cur or cur[-1][0] != "n":
            break
        right.append(cur[-1][1])
        cur = cur[-1][4]
    return left, right


def _join_conservatism(sch, tk, a, b, p, sc, os_, oe):
    """True iff some pair of nodes the replace has to join has different types with
    disjoint first-child sets."""
    rs = sch.ref
    anc_a = [p[1]] + [tk[i][1] for i in flat.open_stack(tk, a)]
    anc_b = [p[1]] + [tk[i][1] for i in flat.open_stack(tk, b)]
    left, right = _spines(sc, os_, oe)
    pairs = []
    da, db = len(anc_a) - 1, len(anc_b) - 1
    for j, t in enumerate(left):
        k = da - os_ + 1 + j
        if 0 <= k <= da:
            pairs.append((anc_a[k], t))
            if k <= db:
                pairs.append((t, anc_b[k]))
    for j, t in enumerate(right):
        k = db - oe + 1 + j
        if 0 <= k <= db:
            pairs.append((t, anc_b[k]))
            if k <= da:
                pairs.append((anc_a[k], t))
    for k in range(min(da, db) + 1):
        pairs.append((anc_a[k], anc_b[k]))
    for x, y in pairs:
        if x != y and not (first(rs.nodes[x].regex) & first(rs.nodes[y].regex)):
            return True
    return False


def _check_replace(ctx, sch, d, p, tk, prof, a, b, s, sc, inner):
    from prosemirror.model import ReplaceError

    rs, leaf = sch.ref, sch.leaf
    ctx.ev()
    E = tk[:a] + inner + tk[b:]
    tree = flat.parse(E)
    # the slice's open sides must be consumed by real ancestors
    well_formed = tree is not None and s.open_start <= prof[a] and s.open_end <= prof[b] \
        and prof[a] - s.open_start == prof[b] - s.open_end
    why = None
    if well_formed:
        why = rs.why_invalid(_root(p, tree))
    det = {**describe_doc(sch, d), "from": a, "to": b, "slice": str(s)[:400],
           "slice_json": s.to_json(), "open": [s.open_start, s.open_end]}
    bucket = [sch.cls if sch.cls == "random" else sch.id, prof[a], prof[b], s.open_start, s.open_end]
    try:
        r = d.replace(a, b, s)
    except ReplaceError as e:
        ctx.count("replace_raised")
        if well_formed and why is None:
            if _join_conservatism(sch, tk, a, b, p, sc, s.open_start, s.open_end):
                ctx.count("replace_raised_join_conservatism")
                ctx.cover(bucket + ["raise-join"])
            else:
                ctx.violation("replace-refused", "replace(%d,%d) raised ReplaceError(%s) although the splice is a valid tree" % (a, b, e), det)
        else:
            ctx.cover(bucket + ["raise"], nontrivial=True)
        return
    except Exception as e:
        ctx.violation("replace-raised-other", "replace(%d,%d) raised %s: %s (not the replace error)" % (a, b, type(e).__name__, e),
                      det, {"exc": type(e).__name__})
        return
    ctx.count("replace_returned")
    got = flat.pt(r)
    if not well_formed:
        ctx.violation("replace-accepted-malformed", "replace(%d,%d) returned %s although the token splice is not a well-formed tree" % (a, b, r), det)
        return
    if why is not None:
        ctx.violation("replace-accepted-invalid", "replace(%d,%d) returned a document the reference finds invalid (%s): %s" % (a, b, why, r), det)
        return
    exp = _root(p, tree)
    if flat.toks(got[4], leaf) != E:
        ctx.violation("replace-splice", "replace(%d,%d) result tokens differ from old[:from]+slice+old[to:]: %s" % (a, b, r), det)
        return
    if got != exp:
        ctx.violation("replace-normal-form", "replace(%d,%d) result is not the normal-form tree of the splice: %s" % (a, b, r), det)
        return
    if r.content.size != d.content.size + s.size - (b - a):
        ctx.violation("replace-size", "size law broken", det)
        return
    seam = (a > 0 and inner and tk[a - 1][0] == "T" and inner[0][0] == "T" and tk[a - 1][2] == inner[0][2]) or \
           (b < len(tk) and inner and tk[b][0] == "T" and inner[-1][0] == "T" and tk[b][2] == inner[-1][2])
    trivial = s.open_start == 0 and s.open_end == 0 and prof[a] == prof[b] and flat.min_depth_between(prof, a, b) == prof[a]
    ctx.cover(bucket + ["ok", bool(seam)], nontrivial=not trivial)
