"""C10 - documents and their parts are immutable values."""
import json
import traceback

from .. import flat, gen, genops, gensteps, schemas
from ..flat import akey
from . import opwork
from .common import describe_doc, other_docs

ID = "C10"
LEVEL = "exploration"
RULE = (
    "case = a history of 15-40 mixed library operations over a pool of documents that share "
    "sub-trees (model queries incl. resolve/slice/cut/copy/mark/text_between/nodes_between, "
    "Node.replace, primitive steps apply/invert/map/merge/get_map, every Transform method, Mapping "
    "composition, to_json/from_json, check(), DOMSerializer / from_html on bundled schemas). Every "
    "Node, Fragment, Slice, Mark list, Step, StepMap passed to or returned from an operation joins the "
    "live set with a deep fingerprint (type, attrs, marks, text, sizes, ranges, step fields, to_json "
    "and the identity of every content list and child); after every operation all fingerprints are "
    "recomputed and must be unchanged, as must the shared singletons (Fragment.empty, Mark.none, "
    "Slice.empty, StepMap.empty, every type's default_attrs). Transform / Mapping accumulators may "
    "only grow, keeping their prefix by identity. A __setattr__ interposer names the writer. distinct "
    "= (schema, operation kind, outcome, live-set size class); trivial = pure integer queries."
)
ASSUMPTIONS = ["objects that have not yet crossed the API boundary (e.g. the step objects Transform.add_mark extends while planning) are not judged"]
WALL = {"quick": 900, "thorough": 7200}


def cases(tier):
    return 3500 if tier == "quick" else 80000


def floors(tier):
    return {"operations": 8000, "fingerprint_checks": 100000, "max_live": 40, "distinct_nontrivial": 100}


# ------------------------------------------------------------------ fingerprints


def fp_marks(marks):
    return (id(marks), tuple((id(m), m.type.name, akey(m.attrs), id(m.attrs)) for m in marks))


def fp_node(n):
    base = (id(n), n.type.name, akey(n.attrs), id(n.attrs), fp_marks(n.marks))
    if n.type.name == "text":
        return base + (n.text,)
    return base + (fp_frag(n.content),)


def fp_frag(f):
    return (id(f), id(f.content), f.size, tuple(fp_node(c) for c in f.content))


def fp_any(x):
    from prosemirror.model import Fragment, Mark, Node, Slice
    from prosemirror.transform import MapResult, Step, StepMap

    if isinstance(x, Node):
        return ("node", fp_node(x), json.dumps(x.to_json(), sort_keys=True))
    if isinstance(x, Fragment):
        return ("frag", fp_frag(x))
    if isinstance(x, Slice):
        return ("slice", id(x), fp_frag(x.content), x.open_start, x.open_end)
    if isinstance(x, Mark):
        return ("mark", id(x), x.type.name, akey(x.attrs), id(x.attrs))
    if isinstance(x, list) and all(isinstance(m, Mark) for m in x):
        return ("marks", fp_marks(x))
    if isinstance(x, StepMap):
        return ("map", id(x), id(x.ranges), tuple(x.ranges), bool(x.inverted))
    if isinstance(x, MapResult):
        return ("mapresult", x.pos, x.del_info, x.recover)
    if isinstance(x, Step):
        out = ["step", type(x).__name__]
        for f in ("from_", "to", "gap_from", "gap_to", "insert", "structure", "pos", "attr"):
            if hasattr(x, f):
                out.append((f, getattr(x, f)))
        if hasattr(x, "value"):
            out.append(("value", akey(x.value)))
        if hasattr(x, "slice"):
            out.append(fp_any(x.slice))
        if hasattr(x, "mark"):
            out.append(fp_any(x.mark))
        return tuple(out)
    return None


class Live:
    def __init__(self, ctx, cap=300):
        self.ctx = ctx
        self.items = {}  # id -> (obj, fp, origin)
        self.cap = cap
        self.writes = []

    def add(self, x, origin):
        if x is None or id(x) in self.items or len(self.items) >= self.cap:
            return
        f = fp_any(x)
        if f is not None:
            self.items[id(x)] = (x, f, origin)

    def add_all(self, xs, origin):
        for x in xs:
            if isinstance(x, (list, tuple)) and not (x and all(hasattr(m, "type") and hasattr(m, "attrs") and not hasattr(m, "content") for m in x)):
                self.add_all(x, origin)
            else:
                self.add(x, origin)

    def verify(self, after, detail):
        ctx = self.ctx
        n = 0
        for k, (x, f, origin) in list(self.items.items()):
            n += 1
            try:
                g = fp_any(x)
            except Exception as e:
                g = ("fingerprint raised", repr(e))
            if g != f:
                writer = [w for w in self.writes if w[0] == id(x)]
                ctx.violation("mutated", "%s obtained from %s changed during %s: %s" % (f[0], origin, after, _diff(f, g)),
                              {**detail, "object": f[0], "obtained_from": origin, "changed_during": after,
                               "writes": [w[1:] for w in self.writes[-3:]], "writer_trace": writer[-1][3] if writer else None},
                              {"kind": f[0], "op": after.split("(")[0]})
                self.items[k] = (x, g, origin)
        ctx.count("fingerprint_checks", n)
        if n > ctx.counters.get("max_live", 0):
            ctx.counters["max_live"] = n


def _diff(a, b):
    sa, sb = repr(a), repr(b)
    i = 0
    while i < min(len(sa), len(sb)) and sa[i] == sb[i]:
        i += 1
    return "...%s  ->  ...%s" % (sa[max(0, i - 40):i + 60], sb[max(0, i - 40):i + 60])


_PATCHED = []
_CURRENT = [None]


def install_setattr():
    """Record attribute writes to objects that are in the live set (for the witness)."""
    if _PATCHED:
        return
    from prosemirror.model import Fragment, Mark, Node, Slice
    from prosemirror.model.node import TextNode
    from prosemirror.transform import StepMap
    from ..monitors.step import step_classes

    for cls in [Node, TextNode, Fragment, Slice, Mark, StepMap] + step_classes():
        def mk(cls):
            orig = cls.__setattr__

            def setter(self, name, value):
                live = _CURRENT[0]
                if live is not None and id(self) in live.items:
                    live.writes.append((id(self), cls.__name__, name, "".join(traceback.format_stack(limit=6)[:-1])[-900:]))
                return orig(self, name, value)

            cls.__setattr__ = setter
        mk(cls)
        _PATCHED.append(cls)


def singletons(S):
    from prosemirror.model import Fragment, Mark, Slice
    from prosemirror.transform import StepMap

    out = [("Fragment.empty", ("frag", id(Fragment.empty.content), len(Fragment.empty.content), Fragment.empty.size)),
           ("Mark.none", ("marks", id(Mark.none), len(Mark.none))),
           ("Slice.empty", ("slice", id(Slice.empty.content), Slice.empty.open_start, Slice.empty.open_end, Slice.empty.content.size)),
           ("StepMap.empty", ("map", tuple(StepMap.empty.ranges), bool(StepMap.empty.inverted)))]
    for n, t in S.nodes.items():
        out.append(("default_attrs:" + n, akey(t.default_attrs)))
    for n, t in S.marks.items():
        out.append(("mark-instance:" + n, akey(t.instance.attrs) if t.instance else None))
    return out


_DOMSCH = []


def dom_schema():
    """list schema + a mark whose attributes all have defaults (so the mark type has one shared
    instance) with a plain tag rule - for hostile HTML parsed while other documents are live."""
    if not _DOMSCH:
        from prosemirror.model import Schema
        from prosemirror.test_builder import test_schema as S0

        marks = dict(S0.spec["marks"])
        marks["hl"] = {"attrs": {"color": {"default": "y"}}, "parseDOM": [{"tag": "mark"}], "toDOM": lambda m, inline: ["mark", 0]}
        _DOMSCH.append(Schema({"nodes": S0.spec["nodes"], "marks": marks}))
    return _DOMSCH[0]


def structure_queries(S, rs, rnd, doc, a, b, slices):
    """The pure questions of the structure module and of the content matcher, asked of a live
    document: can_split (types_after with one entry per level, as splitting a list item passes
    them), can_join, join_point, lift_target, find_wrapping, insert_point, drop_point,
    fill_before, find_wrapping on a match, create_and_fill.  None of them may change anything."""
    from prosemirror.model import Fragment
    from prosemirror.transform import structure as ST

    out = []

    def q(f):
        try:
            x = f()
        except (ValueError, IndexError, AttributeError, TypeError, AssertionError):
            return None  # C12 judges the helpers' answers; here only their side effects matter
        return x

    rp = doc.resolve(a)
    tbs = [x for x, t in rs.nodes.items() if t.inline_content and not t.inline and not t.required_attrs]
    for depth in (1, 2, 3):
        ta = None
        if rp.depth >= depth and rnd.random() < 0.7:
            ta = []
            for lv in range(rp.depth - depth + 1, rp.depth + 1):
                nd = rp.node(lv)
                if lv == rp.depth and tbs and nd.inline_content and rnd.random() < 0.4:
                    ta.append(ST.NodeTypeWithAttrs(S.nodes[rnd.choice(tbs)], None))
                else:
                    ta.append(ST.NodeTypeWithAttrs(nd.type, nd.attrs) if rnd.random() < 0.85 else None)
        q(lambda: ST.can_split(doc, a, depth, ta))
    q(lambda: ST.can_join(doc, a))
    q(lambda: ST.join_point(doc, a, -1))
    q(lambda: ST.join_point(doc, a, 1))
    rng = q(lambda: rp.block_range(doc.resolve(b)))
    names = [x for x, t in rs.nodes.items() if not t.is_text]
    if rng is not None:
        q(lambda: ST.lift_target(rng))
        for nm in rnd.sample(names, min(3, len(names))):
            w = q(lambda: ST.find_wrapping(rng, S.nodes[nm]))
            if w:
                out.extend(x.attrs for x in w if getattr(x, "attrs", None))
    for nm in rnd.sample(names, min(2, len(names))):
        q(lambda: ST.insert_point(doc, a, S.nodes[nm]))
        q(lambda: rp.parent.content_match_at(rp.index()).find_wrapping(S.nodes[nm]))
        nd = q(lambda: S.nodes[nm].create_and_fill())
        if nd is not None:
            out.append(nd)
    if slices:
        q(lambda: ST.drop_point(doc, a, rnd.choice(slices)))
    frag = rnd.choice(slices).content if slices else Fragment.empty
    f = q(lambda: rp.parent.content_match_at(rp.index()).fill_before(frag, rnd.random() < 0.5))
    if f is not None:
        out.append(f)
    return out


def parse_with_live_rules(S, rnd, pool, doc):
    """DOMParser whose rules hand the parser parts of LIVE documents, the documented way a
    caller supplies ready-made content: getContent returns the content fragment of a node of
    a live document, getAttrs returns the attrs dict of a live node, top_node / context point
    into a live document.  The HTML is the serialised document with elements that trigger
    those rules spliced in.  Returns the parsed document / slice (None if the parser raised)."""
    import lxml.html
    from prosemirror.model import DOMParser, DOMSerializer
    from prosemirror.model.from_dom import ParseOptions, ParseRule

    from . import c19

    inl, blk, ats = [], [], []

    def visit(nd, pos, par, idx):
        if nd.is_text:
            return
        ats.append(nd.attrs)
        if nd.is_textblock and nd.child_count:
            inl.append(nd.content)
        elif nd.child_count and not nd.inline_content:
            blk.append(nd.content)

    for x in pool:
        x.descendants(visit)
        blk.append(x.content)
    pick = lambda xs: (lambda dom, *a: xs[int(dom.get("data-t")) % len(xs)])  # noqa: E731
    extra = []
    if inl:
        extra.append({"tag": "p[data-t]", "node": "paragraph", "getContent": pick(inl)})
        extra.append({"tag": "h6[data-t]", "node": "heading", "getAttrs": pick(ats), "getContent": pick(inl)})
    extra.append({"tag": "blockquote[data-t]", "node": "blockquote", "getContent": pick(blk)})
    if ats:
        extra.append({"tag": "h5[data-t]", "node": "heading", "getAttrs": pick(ats)})
    parser = DOMParser(S, [ParseRule.from_json(r) for r in extra] + DOMParser.schema_rules(S))
    ser = DOMSerializer.from_schema(S)
    parts = [str(ser.serialize_node(doc.child(j))) for j in range(doc.child_count)]
    for _ in range(rnd.randint(1, 4)):
        tag = rnd.choice(["p", "p", "h6", "blockquote", "h5"])
        el = '<%s data-t="%d">%s</%s>' % (tag, rnd.randint(0, 999), rnd.choice(["", " ", "x "]), tag)
        parts.insert(rnd.randint(0, len(parts)), el)
    dom = lxml.html.fragment_fromstring("".join(parts), create_parent="div")
    r = rnd.random()
    n = doc.content.size
    budget_ = 5000 * (sum(len(x) for x in parts) + 10) + 200000
    try:
        if r < 0.5:
            return c19.watch().run(budget_, parser.parse, dom)
        if r < 0.7:
            return c19.watch().run(budget_, parser.parse, dom, ParseOptions(top_node=doc, preserve_whitespace=rnd.choice([None, True, "full"])))
        ctxpos = doc.resolve(rnd.randint(0, n))
        return c19.watch().run(budget_, parser.parse_slice, dom, ParseOptions(context=ctxpos, preserve_whitespace=rnd.choice([None, True])))
    except BaseException:
        return None


def case(ctx, rnd, i):
    from prosemirror.model import Fragment, Mark, Node, Slice
    from prosemirror.transform import Mapping, Step, StepMap, Transform

    install_setattr()
    ids = list(schemas.TOTALITY) + ["structure", "fixed"]
    st = opwork.setup_history(ctx, rnd, ids=ids, random_share=0.2, nslices=3, wide=0.15, nested_attrs=rnd.random() < 0.5)
    if st is None:
        return
    sch, g, d, p, slices = st
    S, rs, leaf = sch.schema, sch.ref, sch.leaf
    sid = sch.cls if sch.cls == "random" else sch.id
    live = Live(ctx)
    _CURRENT[0] = live
    try:
        base = describe_doc(sch, d)
        sing0 = singletons(S)
        pool = [d]
        others = other_docs(sch, rnd, 1)
        pool.append(others[0][0])
        live.add_all(pool, "generator")
        live.add_all(slices, "Node.slice")
        tr = Transform(d)
        acc = ([], [], [])
        mp = Mapping()
        mp_snap = ([], [])
        mp_len = 0
        mp_mirror_len = 0
        nops = rnd.randint(15, 40)
        for k in range(nops):
            doc = rnd.choice(pool)
            n = doc.content.size
            r = rnd.random()
            name = "?"
            outcome = "ok"
            try:
                if r < 0.2:
                    name = rnd.choice(["resolve", "slice", "cut", "text_between", "nodes_between", "copy", "mark", "node_at", "check", "eq", "range_has_mark",
                                       "helpers", "helpers"])
                    a = rnd.randint(0, n)
                    b = rnd.randint(a, n)
                    if name == "resolve":
                        rp = doc.resolve(a)
                        rq = doc.resolve(b)
                        res = [rp.node_before, rp.node_after, rp.marks(), rp.parent, rp.marks_across(rq), rq.marks_across(rq),
                               rp.block_range(rq), rp.shared_depth(b)]
                        res = [x for x in res if not isinstance(x, (int, type(None))) and not hasattr(x, "depth")]
                    elif name == "slice":
                        res = [doc.slice(a, b), doc.slice(a, b, True)]
                    elif name == "cut":
                        res = [doc.cut(a, b), doc.content.cut(a, b)]
                    elif name == "text_between":
                        res = [doc.text_between(a, b, "\n")]
                    elif name == "nodes_between":
                        acc_ = []
                        doc.nodes_between(a, b, lambda nd, pos, par, idx: acc_.append(nd))
                        res = acc_[:5]
                    elif name == "copy":
                        res = [doc.copy(doc.content), doc.copy(Fragment.empty) if rnd.random() < 0.3 else None]
                    elif name == "mark" and rnd.random() < 0.5 and len(rs.marks) >= 2:
                        ms = [gensteps.random_mark(sch, rnd, g) for _ in range(3)]
                        ms.sort(key=lambda m_: -m_.type.rank)
                        live.add(ms, "caller's mark list")
                        res = [S.text("q", ms), Mark.set_from(ms)]
                    elif name == "mark":
                        m = gensteps.random_mark(sch, rnd, g)
                        res = [doc.first_child.mark(m.add_to_set(doc.first_child.marks))] if m is not None and doc.first_child is not None else []
                    elif name == "helpers":
                        res = structure_queries(S, rs, rnd, doc, a, b, slices)
                    elif name == "node_at":
                        res = [doc.node_at(a)]
                    elif name == "check":
                        doc.check()
                        res = []
                    elif name == "eq":
                        res = [doc.eq(rnd.choice(pool))]
                    else:
                        m = gensteps.random_mark(sch, rnd, g)
                        res = [doc.range_has_mark(a, b, m.type)] if m is not None else []
                    live.add_all([x for x in res if x is not None], name)
                elif r < 0.3:
                    name = "Node.replace"
                    a = rnd.randint(0, n)
                    b = rnd.randint(a, n)
                    s = rnd.choice(slices) if slices else Slice.empty
                    nd = doc.replace(a, b, s)
                    live.add(nd, name)
                    if rs.why_invalid(flat.pt(nd)) is None:
                        pool.append(nd)
                elif r < 0.5:
                    name = "step"
                    tk = flat.toks(flat.pt(doc)[4], leaf)
                    prof = flat.depth_profile(tk)
                    stp, tag = gensteps.gen_step(sch, rnd, g, doc, flat.pt(doc), tk, prof, slices)
                    name = "step:" + tag
                    live.add(stp, "step generator")
                    res = stp.apply(doc)
                    smap = stp.get_map()
                    live.add(smap, "Step.get_map")
                    if res.doc is not None:
                        live.add(res.doc, "Step.apply")
                        inv = stp.invert(doc)
                        live.add(inv, "Step.invert")
                        mapped = stp.map(rnd.choice([stp.get_map(), mp]) if rnd.random() < 0.7 else StepMap([0, 0, 1]))
                        live.add(mapped, "Step.map")
                        merged = stp.merge(inv)
                        live.add(merged, "Step.merge")
                        if rs.why_invalid(flat.pt(res.doc)) is None:
                            pool.append(res.doc)
                        mp.append_map(smap)
                        mp_len += 1
                        if rnd.random() < 0.4:
                            # as rebasing does: the inverse follows, registered as the mirror
                            mp.append_map(smap.invert(), len(mp.maps) - 1)
                            mp_len += 1
                            mp_mirror_len += 2
                    else:
                        outcome = "failed"
                elif r < 0.8:
                    op = genops.gen_op(sch, rnd, g, tr.doc, slices)
                    name = "Transform." + op.name
                    out, _e = opwork.run_op(tr, op, tr.doc.content.size, 40)
                    outcome = out
                    live.add(tr.doc, name)
                    live.add_all(tr.steps[len(acc[0]):], name)
                    live.add_all(tr.mapping.maps[len(acc[2]):], name)
                    if rs.why_invalid(flat.pt(tr.doc)) is None:
                        pool.append(tr.doc)
                    else:
                        tr = Transform(rnd.choice(pool))
                        acc = ([], [], [])
                        continue
                elif r < 0.88:
                    name = rnd.choice(["to_json", "from_json", "step_json"])
                    if name == "to_json":
                        j = doc.to_json()
                        _poison(j)
                    elif name == "from_json":
                        nd = Node.from_json(S, json.loads(json.dumps(doc.to_json())))
                        live.add(nd, name)
                    elif tr.steps:
                        s0 = rnd.choice(tr.steps)
                        j = s0.to_json()
                        s1 = Step.from_json(S, json.loads(json.dumps(j)))
                        _poison(j)
                        live.add(s1, name)
                elif r < 0.93:
                    name = "Mapping"
                    m2 = mp.copy()
                    free_ = [k_ for k_ in range(len(mp.maps)) if k_ not in (mp.mirror or [])]
                    m2.append_map(StepMap([0, 0, 1]), rnd.choice(free_) if free_ and rnd.random() < 0.6 else None)
                    if len(mp.maps) != mp_len:
                        raise AssertionError("copy shares maps")
                    if rnd.random() < 0.5:
                        m2.append_mapping(mp)
                    if rnd.random() < 0.5:
                        m2.append_mapping_inverted(mp)
                    inv = mp.invert() if rnd.random() < 0.5 else mp.copy()
                    if mp.maps and rnd.random() < 0.5:
                        live.add(rnd.choice(mp.maps).invert(), "StepMap.invert")
                    sl = mp.slice(0, max(0, len(mp.maps) - 1))
                    for q in range(0, n + 1, max(1, n // 4)):
                        live.add(mp.map_result(q, 1), "Mapping.map_result")
                        m2.map(q), inv.map(q, -1), sl.map(q)
                    live.add_all(list(m2.maps[:3]), "Mapping.copy")
                elif sch.id in ("basic", "list") and rnd.random() < 0.5:
                    name = "dom-live-rules"
                    nd = parse_with_live_rules(S, rnd, pool, doc)
                    ctx.count("dom_live_rules_" + ("raised" if nd is None else "parsed"))
                    if nd is None:
                        outcome = "from_html-raised"
                    else:
                        live.add(nd, name)
                elif sch.id in ("basic", "list"):
                    name = "dom"
                    from prosemirror.model import DOMSerializer
                    from prosemirror.model.from_dom import from_html

                    ser = DOMSerializer.from_schema(S)
                    if rnd.random() < 0.5:
                        # a serialiser whose output specs hand over the node's / mark's own attrs
                        # object (as older bundled schemas did): rendering must only read it
                        nodes_ = dict(ser.nodes)
                        marks_ = dict(ser.marks)
                        nodes_["image"] = lambda nd_: ["img", nd_.attrs]
                        nodes_["heading"] = lambda nd_: ["h" + str(nd_.attrs["level"]), nd_.attrs, 0]
                        if "ordered_list" in nodes_:
                            nodes_["ordered_list"] = lambda nd_: ["ol", nd_.attrs, 0]
                        marks_["link"] = lambda mk_, inl_: ["a", mk_.attrs, 0]
                        ser = DOMSerializer(nodes_, marks_)
                        name = "dom-live-attrs"
                    html = str(ser.serialize_fragment(doc.content))
                    try:
                        nd = from_html(S, html)
                        live.add(nd, "from_html")
                    except Exception:
                        outcome = "from_html-raised"
                elif rnd.random() < 0.6:
                    name = "from_html-hostile"
                    from prosemirror.model.from_dom import from_html
                    from . import c19

                    html = c19.gen_html(rnd, 0, set(), False, c19.INLINE + ["mark", "mark", "mark"])
                    try:
                        j = c19.watch().run(5000 * (len(html) + 10), from_html, dom_schema(), html or "<p>x</p>")
                        live.add(Node.from_json(dom_schema(), j), name)
                    except BaseException:
                        outcome = "from_html-raised"
                else:
                    name = "can_replace"
                    live.add(doc.can_replace(0, doc.child_count, rnd.choice(pool).content), name)
            except Exception as e:
                outcome = "raised:" + type(e).__name__
            ctx.count("operations")
            ctx.count("outcome:" + outcome.split(":")[0])
            ctx.ev()
            det = {**base, "operation": name, "k": k}
            live.verify(name, det)
            sing1 = singletons(S)
            if sing1 != sing0:
                bad = [a_[0] for a_, b_ in zip(sing0, sing1) if a_ != b_]
                ctx.violation("singleton-mutated", "shared singleton(s) %r changed during %s" % (bad, name), det, {"singleton": bad[0].split(":")[0], "op": name.split(":")[0]})
                sing0 = sing1
            # accumulators only grow
            cur = ([id(x) for x in tr.steps], [id(x) for x in tr.docs], [id(x) for x in tr.mapping.maps])
            for nm, old, new in zip(("steps", "docs", "maps"), acc, cur):
                if new[:len(old)] != old:
                    ctx.violation("accumulator", "Transform.%s did not only grow during %s" % (nm, name), det, {"which": nm})
            acc = cur
            if len(mp.maps) != mp_len:
                ctx.violation("accumulator", "a Mapping that was not appended to now has %d maps instead of %d (during %s)" % (len(mp.maps), mp_len, name), det, {"which": "mapping-length"})
                mp_len = len(mp.maps)
            if len(mp.mirror or []) != mp_mirror_len:
                ctx.violation("accumulator", "the mirror table of a Mapping that got no mirrored append now has %d entries instead of %d (during %s)" % (len(mp.mirror or []), mp_mirror_len, name), det, {"which": "mapping-mirror-length"})
                mp_mirror_len = len(mp.mirror or [])
            mcur = ([id(x) for x in mp.maps], list(mp.mirror or []))
            if mcur[0][:len(mp_snap[0])] != mp_snap[0] or mcur[1][:len(mp_snap[1])] != mp_snap[1]:
                ctx.violation("accumulator", "Mapping.maps/mirror did not only grow during %s" % name, det, {"which": "mapping"})
            mp_snap = mcur
            ctx.cover([sid, name.split(":")[0], outcome.split(":")[0], min(len(live.items) // 50, 5)], nontrivial=name not in ("eq", "check", "range_has_mark"))
        if i % 25 == 0:
            ctx.sample({"schema": sch.id, "doc": str(d)[:200], "operations": nops, "live": len(live.items)})
    finally:
        _CURRENT[0] = None


def _poison(x):
    if isinstance(x, list):
        for v in list(x):
            _poison(v)
        x.append("POISON")
    elif isinstance(x, dict):
        for v in list(x.values()):
            _poison(v)
        x["POISON"] = 1
