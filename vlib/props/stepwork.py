"""Workloads that make steps get applied (shared by C01 and C03; the deciding oracle is the
StepMonitor armed by the caller)."""
from .. import flat, gen, gensteps
from ..monitors import step as stepmon
from .common import pick_schema, other_docs


def primitive_workload(ctx, rnd, mon, nsteps=40, random_share=0.3):
    sch = pick_schema(rnd, random_share=random_share)
    if sch is None:
        ctx.count("schema_gen_failed")
        return
    stepmon.register(sch)
    mon.sid = sch.cls if sch.cls == "random" else sch.id
    mon.origin = "primitive"
    g = gen.DocGen(sch, rnd, wide=0.1)
    d, p = g.doc()
    leaf = sch.leaf
    tk = flat.toks(p[4], leaf)
    prof = flat.depth_profile(tk)
    others = other_docs(sch, rnd, 2)
    slices = gensteps.valid_slices(sch, rnd, [(d, p)] + others, per=4)
    ctx.sample({"schema": sch.id, "doc": str(d)[:300]})
    for _ in range(nsteps):
        step, tag = gensteps.gen_step(sch, rnd, g, d, p, tk, prof, slices)
        mon.tag = tag
        mon.via_json = False
        if rnd.random() < 0.5:
            try:
                step = gensteps.via_json(sch, step)
                mon.via_json = True
            except Exception as e:
                ctx.count("from_json_raised:%s" % type(e).__name__)
                if not isinstance(e, ValueError):
                    ctx.violation("from-json-internal-error", "Step.from_json raised %s: %s" % (type(e).__name__, e),
                                  {"step_json": stepmon.describe_step(step), "schema": sch.id}, {"exc": type(e).__name__, "tag": tag})
                continue
        ctx.count("steps_generated")
        try:
            res = step.apply(d)
        except BaseException:
            continue  # judged by the monitor
        # chain: sometimes continue from the new document so that steps meet documents
        # that earlier steps produced
        if res.doc is not None and rnd.random() < 0.15:
            why = sch.ref.why_invalid(flat.pt(res.doc))
            if why is None:
                d = res.doc
                p = flat.pt(d)
                tk = flat.toks(p[4], leaf)
                prof = flat.depth_profile(tk)


def repo_tests_workload(ctx, prop):
    """Run the repository's own test suite with the step monitor armed (pytest plugin) and
    merge what it observed."""
    import json
    import os
    import subprocess
    import tempfile

    from .. import env

    fd, out = tempfile.mkstemp(prefix="verif-plugin-", suffix=".json")
    os.close(fd)
    try:
        e = {**os.environ, "PYTHONPATH": env.VERIF + os.pathsep + env.REPO, "VERIF_PLUGIN_OUT": out, "VERIF_PLUGIN_PROP": prop,
             "PYTHONDONTWRITEBYTECODE": "1"}
        r = subprocess.run(["/venv/bin/python", "-m", "pytest", "-q", "-p", "no:cacheprovider", "-p", "vlib.pytest_plugin", "tests"],
                           cwd=env.REPO, env=e, capture_output=True, text=True, timeout=900)
        try:
            res = json.load(open(out))
        except Exception:
            ctx.count("repo_tests_plugin_no_result")
            return
        ctx.count("repo_tests_exitstatus_%d" % res["exitstatus"])
        for k, v in res["counters"].items():
            if k in ("apply_events", "evaluations") or k.startswith("apply:") or k.startswith("map_events:"):
                ctx.count(k, v)
            if k == "apply_events":
                ctx.count("apply_events_in_repo_tests", v)
        for v in res["violations"]:
            ctx.violation(v["oracle"], "[while running the repository's tests] " + v["message"], v["detail"], v["mech"])
    finally:
        try:
            os.unlink(out)
        except OSError:
            pass
