"""Shared by C06 and C15: probe schemas around a generated content expression, and the
product exploration (library match state x reference derivative)."""
from ..refschema import EMPTY, RefSchema, SchemaRejected, TooComplex, deriv, first, nullable

BLOCK_NAMES = ["a", "b", "c", "g", "gg", "r"]
INLINE_NAMES = ["text", "i", "j", "inline"]


def probe_spec(expr, extra=None):
    """Schema spec whose node `x` has `expr` as content.  Block alphabet: leaf blocks a, b
    (group g), b, c (group gg), c also in group ggx, r (required attribute => not generatable).  Inline alphabet: text, i (leaf),
    j (required attribute); group inline = text i j."""
    nodes = {
        "doc": {"content": "(x | a | b | c | r)*"},
        "x": {"content": expr},
        # group names that contain one another: g = {a, b}, gg = {b, c}, ggx = {c} (never named)
        "a": {"group": "g"},
        "b": {"group": "g gg"},
        "c": {"attrs": {"o": {"default": None}}, "group": "gg ggx"},
        "r": {"attrs": {"q": {}}},
        "text": {"group": "inline"},
        "i": {"inline": True, "group": "inline"},
        "j": {"inline": True, "group": "inline", "attrs": {"q": {}}},
    }
    if extra:
        nodes.update(extra)
    return {"nodes": nodes, "marks": {"em": {}}}


def build(spec):
    """(library schema or exception, reference schema or SchemaRejected)."""
    from prosemirror.model import Schema

    try:
        rs = RefSchema(spec)
    except SchemaRejected as e:
        rs = e
    except TooComplex as e:
        return None, e
    try:
        s = Schema(spec)
    except BaseException as e:  # noqa: BLE001 - rejection by any exception is tallied
        s = e
    return s, rs


def product(S, rs, tname, limit=400):
    """All reachable (library state, derivative) pairs for node type tname.  Yields
    (state, D, path) with path = one type-name sequence leading there."""
    t = S.nodes[tname]
    start = t.content_match
    D0 = rs.nodes[tname].regex
    seen = {(id(start), D0)}
    work = [(start, D0, ())]
    keep = [start]
    while work:
        st, D, path = work.pop()
        yield st, D, path
        for name in S.nodes:
            nxt = st.match_type(S.nodes[name])
            D2 = deriv(D, name)
            if nxt is not None and D2 != EMPTY:
                k = (id(nxt), D2)
                if k not in seen and len(seen) < limit:
                    seen.add(k)
                    keep.append(nxt)
                    work.append((nxt, D2, path + (name,)))
