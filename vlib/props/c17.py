"""C17 - concurrent edits to separate parts of a document commute after rebasing."""
from .. import flat, gen, genops, gensteps, refmap, schemas
from ..monitors import step as stepmon
from . import opwork
from .common import describe_doc, other_docs

ID = "C17"
LEVEL = "exploration"
RULE = (
    "case = one valid document (bundled schemas + variants, >= 3 top-level blocks where the schema "
    "allows, nested lists / tables) and the single steps emitted against it by ~14 high-level "
    "operations of every kind; every ordered pair (A,B) whose touched ranges (hull of the map's old "
    "ranges; [from,to] / [pos,pos+1] for map-less steps) are separated by at least one untouched token "
    "is admitted. For an admitted pair: A.map(B.map) and B.map(A.map) are not None, both orders of "
    "application succeed and give equal documents. distinct = (schema, step class of A, of B, emitting "
    "operations, relative order, outcome); the 8x8 step-class matrix is reported."
)
ASSUMPTIONS = ["only operations that emit exactly one step are paired (a multi-step operation is not one step)"]
KINDS = ["replace", "replace_with", "insert", "delete", "delete_range", "replace_range", "add_mark", "remove_mark", "split", "join", "lift", "wrap",
         "set_node_markup", "set_node_attribute", "add_node_mark", "remove_node_mark", "set_block_type", "set_doc_attribute"]


def cases(tier):
    return 5000 if tier == "quick" else 150000


def floors(tier):
    return {"admitted_pairs": 6000, "distinct_nontrivial": 150, "max_matrix_cells": 25}


def hull(step, n):
    m = step.get_map()
    tr = refmap.normal_ranges(list(m.ranges), bool(m.inverted))
    if tr:
        # a pure insertion touches the gap it goes into
        return min(s for s, o, _n in tr), max(s + o for s, o, _n in tr), tr
    if hasattr(step, "from_"):
        return step.from_, step.to, []
    if hasattr(step, "pos"):
        return step.pos, step.pos + 1, []
    return None  # doc attr: touches no token


def removed_tokens(tr):
    out = set()
    for s, o, _n in tr:
        out.update(range(s, s + o))
    return out


def shares_node_boundary(tk, removed, lo, hi):
    """Does the step that removes the token indices `removed` delete the open or close token
    of a node whose span [open, close] overlaps the other step's hull [lo, hi]?"""
    for i in removed:
        if i >= len(tk):
            continue
        if tk[i][0] == "O":
            oi, ci = i, gensteps.matching_close(tk, i)
        elif tk[i][0] == "C":
            depth = 0
            oi = None
            for j in range(i, -1, -1):
                if tk[j][0] == "C":
                    depth += 1
                elif tk[j][0] == "O":
                    depth -= 1
                    if depth == 0:
                        oi = j
                        break
            if oi is None:
                continue
            ci = i
        else:
            continue
        if lo <= ci + 1 and hi >= oi:
            return True
    return False


def reparents(sch, tk, dX, hX, hY):
    """Does step X (hull hX, result dX) change the chain of ancestor node types at the ends
    of step Y's range?  (reference token lists on both sides, reference mapping rule)"""
    tkx = flat.toks(flat.pt(dX)[4], sch.leaf)
    for pos, assoc in ((hY[0], 1), (hY[1], -1), (hY[0], -1), (hY[1], 1)):
        if pos > len(tk):
            continue
        before = [tk[i][1] for i in flat.open_stack(tk, pos)]
        q = refmap.map_pos(hX[2], pos, assoc).pos if hX[2] else pos
        if q > len(tkx):
            continue
        after = [tkx[i][1] for i in flat.open_stack(tkx, q)]
        if before != after:
            return True
    return False


def enclosing_tokens(tk, lo, hi):
    """Indices of the open and close tokens of every node enclosing [lo,hi]."""
    out = set()
    for oi in flat.open_stack(tk, lo):
        ci = gensteps.matching_close(tk, oi)
        if ci >= hi:
            out.add(oi)
            out.add(ci)
    return out


def case(ctx, rnd, i):
    from prosemirror.transform import Transform

    sch = schemas.get(rnd.choice(schemas.TOTALITY))
    stepmon.register(sch)
    S, rs, leaf = sch.schema, sch.ref, sch.leaf
    g = gen.DocGen(sch, rnd, wide=0.1, mark_p=0.3)
    d, p = None, None
    for _ in range(6):
        d, p = g.doc(rnd.choice([24, 36, 50, 60]))
        if len(p[4]) >= 3 or sch.id in ("strict",):
            break
    tk = flat.toks(p[4], leaf)
    n = len(tk)
    others = other_docs(sch, rnd, 2)
    slices = gensteps.valid_slices(sch, rnd, [(d, p)] + others, per=4)
    base = describe_doc(sch, d)
    if i % 20 == 0:
        ctx.sample({"schema": sch.id, "doc": str(d)[:200]})
    made = []
    for _ in range(14):
        op = genops.gen_op(sch, rnd, g, d, slices, KINDS)
        tr = Transform(d)
        out, _e = opwork.run_op(tr, op, n, 40)
        if out != "ok" or len(tr.steps) != 1:
            continue
        if rs.why_invalid(flat.pt(tr.doc)) is not None:
            continue
        st = tr.steps[0]
        h = hull(st, n)
        made.append((st, op, tr.doc, h))
    # primitive steps as a peer may send them (an AddMarkStep over text that carries marks
    # the new one excludes is ONE step; Transform.add_mark would emit several)
    prof = flat.depth_profile(tk)
    for _ in range(6):
        try:
            st, tag = gensteps.gen_step(sch, rnd, g, d, p, tk, prof, slices, rnd.choice(["addMark", "addMark", "removeMark", "replace", "attr", "addNodeMark"]))
            r = st.apply(d)
        except Exception:
            continue
        if r.doc is None or rs.why_invalid(flat.pt(r.doc)) is not None:
            continue
        h = hull(st, n)
        made.append((st, genops.Op("primitive:" + tag, {"step": st.to_json()}, None), r.doc, h))
        ctx.count("primitive_steps_admitted")
    for x in range(len(made)):
        for y in range(len(made)):
            if x == y:
                continue
            A, opA, dA, hA = made[x]
            B, opB, dB, hB = made[y]
            if hA is None or hB is None:
                continue
            # strictly separated: at least one untouched token between the hulls
            if not (hA[1] < hB[0] or hB[1] < hA[0]):
                continue
            if hA[1] < hB[0]:
                gap = hB[0] - hA[1]
            else:
                gap = hA[0] - hB[1]
            if gap < 1:
                continue
            ctx.count("admitted_pairs")
            ctx.ev()
            ka, kb = type(A).__name__, type(B).__name__
            ctx.count("cell:%s|%s" % (ka[:-4], kb[:-4]))
            det = {**base, "A": A.to_json(), "B": B.to_json(), "opA": opA.describe(), "opB": opB.describe()}
            mech = {"A": ka, "B": kb}
            try:
                A2 = A.map(B.get_map())
                B2 = B.map(A.get_map())
            except Exception as e:
                ctx.violation("map-raised", "Step.map raised %s: %s" % (type(e).__name__, e), det, {**mech, "exc": type(e).__name__})
                continue
            if A2 is None or B2 is None:
                ctx.violation("dropped", "rebasing dropped %s although the touched ranges %r and %r are separated" % ("A" if A2 is None else "B", hA[:2], hB[:2]), det, mech)
                continue
            res = []
            for first_doc, second, nm in ((dA, B2, "B'(A(doc))"), (dB, A2, "A'(B(doc))")):
                try:
                    r = second.apply(first_doc)
                    res.append((r.doc, r.failed))
                except Exception as e:
                    res.append((None, "%s: %s" % (type(e).__name__, e)))
            (d1, f1), (d2, f2) = res
            if d1 is None or d2 is None:
                # structural facts for the known-limit classifier
                ra, rb = removed_tokens(hA[2]), removed_tokens(hB[2])
                anc = bool(ra & enclosing_tokens(tk, hB[0], hB[1])) or bool(rb & enclosing_tokens(tk, hA[0], hA[1])) \
                    or shares_node_boundary(tk, ra, hB[0], hB[1]) or shares_node_boundary(tk, rb, hA[0], hA[1])
                anc = anc or reparents(sch, tk, dA, hA, hB) or reparents(sch, tk, dB, hB, hA)
                msgs = [str(f1 or ""), str(f2 or "")]
                validity = all((not m_) or m_.startswith("Invalid content") or "Invalid collection of marks" in m_ or "Cannot join" in m_ for m_ in msgs)
                ctx.violation("order-fails", "%s; %s" % ("B'(A(doc)) failed: %s" % f1 if d1 is None else "B'(A(doc)) ok",
                                                          "A'(B(doc)) failed: %s" % f2 if d2 is None else "A'(B(doc)) ok"), det,
                              {**mech, "both_fail": d1 is None and d2 is None, "ancestor_token_removed": anc, "validity_error": validity})
                continue
            if not (d1.eq(d2) and d2.eq(d1) and flat.pt(d1) == flat.pt(d2)):
                ra, rb = removed_tokens(hA[2]), removed_tokens(hB[2])
                anc = bool(ra & enclosing_tokens(tk, hB[0], hB[1])) or bool(rb & enclosing_tokens(tk, hA[0], hA[1])) \
                    or shares_node_boundary(tk, ra, hB[0], hB[1]) or shares_node_boundary(tk, rb, hA[0], hA[1])
                anc = anc or reparents(sch, tk, dA, hA, hB) or reparents(sch, tk, dB, hB, hA)
                strip = lambda dd: [(t[0], t[1]) if t[0] == "T" else t[:3] for t in flat.toks(flat.pt(dd)[4], leaf)]  # noqa: E731
                ctx.violation("diverged", "the two orders give different documents: %s vs %s" % (str(d1)[:250], str(d2)[:250]), det,
                              {**mech, "ancestor_token_removed": anc, "differ_only_in_text_marks": strip(d1) == strip(d2),
                               "token_sequences_equal": flat.toks(flat.pt(d1)[4], leaf) == flat.toks(flat.pt(d2)[4], leaf)})
                continue
            ctx.cover([sch.id, ka, kb, opA.name, opB.name, hA[1] < hB[0]], nontrivial=True)
            ctx.cover(["cell", ka, kb], nontrivial=False)
    cells = {k for k in ctx.counters if k.startswith("cell:")}
    ctx.counters["max_matrix_cells"] = len(cells)
