"""C06 - a content expression and its compiled matcher accept exactly the same sequences."""
from .. import gen
from ..refschema import EMPTY, SchemaRejected, TooComplex, ast_print, ast_size, deriv, first, nullable
from . import contentwork as cw

ID = "C06"
LEVEL = "exploration"
RULE = (
    "expressions are generated as syntax trees (names, groups, seq, choice, ? * +, {n} {n,} {n,m}) and "
    "printed with random spacing / redundant parentheses into a probe schema; after Schema() returns, "
    "the live compiled automaton is walked completely through match_type / valid_end / edge_count / "
    "edge(i) in product with the Brzozowski derivatives of the tree: at every reachable pair valid_end "
    "== nullable and, for every node type, match_type is None exactly when the derivative is empty - "
    "which decides the expression for child sequences of any length. Exhaustive over all trees up to "
    "size 4 (quick) / 5 (thorough) over a block and an inline alphabet, random trees up to size 14 "
    "beyond; malformed expressions (unknown name, inline/block mix, unclosed ( or {, dangling operator, "
    "trailing text, dead end) must make Schema() raise. A further family declares several near-duplicate "
    "expressions in ONE schema (same tree with other spacing, blanks between names removed where the "
    "run-together name is itself a declared type, small edits) and decides every node type against its "
    "own expression. match_fragment is cross-checked on real "
    "fragments. distinct = (alphabet, tree size, root operator, number of automaton states, outcome)."
)
ASSUMPTIONS = [
    "ranges {n,m} are generated with n <= m (upstream does not define the other case)",
    "a RecursionError from Schema() is tolerated (counted) only when the expression's minimal automaton has >= 100 states "
    "(CPython's recursion limit as a resource bound); expressions whose reference automaton exceeds 3000 states are skipped",
]
STRIDES = {"quick": 64, "thorough": 512}
MAXSIZE = {"quick": 4, "thorough": 5}
NRANDOM = {"quick": 12000, "thorough": 200000}
MALFORMED = 48


def EXHAUSTIVE(tier):
    return "every expression syntax tree with <= %d nodes over the block alphabet {a,b,c,g,r} and the inline alphabet {text,i,j,inline}; each decided for all child sequences by automaton product" % MAXSIZE[tier]


NMULTI = {"quick": 160, "thorough": 8000}


def cases(tier):
    return STRIDES[tier] + NRANDOM[tier] // 10 + MALFORMED + NMULTI[tier]


MULTI_NAMES = ["a", "b", "c", "g", "ab", "ba", "aa", "bc", "abc"]


def multi_case(ctx, rnd):
    """One schema declaring several node types x0..xk whose expressions are near-duplicates of
    each other: the same tree printed with different spacing / parentheses, the same text with
    the blanks between names removed (a different expression when the run-together name is a
    declared type: 'a b' vs 'ab'), small edits of the tree.  Every x_i is decided against its
    own expression: a matcher shared, cached or confused between declarations shows up."""
    from ..refschema import RefSchema

    base = gen.bounded_ast(rnd, MULTI_NAMES, rnd.randint(2, 8))
    exprs = []
    for _ in range(rnd.randint(2, 3)):
        exprs.append((ast_print(base, rnd), base))
    plain = ast_print(base, None)
    exprs.append((plain, base))
    squeezed = "".join(exprs[0][0].split())
    exprs.append((squeezed, None))
    exprs.append(("".join(plain.split()), None))
    exprs.append((plain.replace(" ", "  "), base))
    other = gen.bounded_ast(rnd, MULTI_NAMES, rnd.randint(1, 6))
    exprs.append((ast_print(other, rnd), other))
    exprs.append((ast_print(("seq", (base, other)), rnd), None))
    rnd.shuffle(exprs)
    extra = {"ab": {}, "ba": {}, "aa": {"group": "g"}, "bc": {}, "abc": {}}
    # keep only expressions the reference accepts on their own (a squeezed text may name an
    # undeclared type or be malformed; that is the malformed family's business)
    keep = []
    for e, a in exprs:
        if any(e == k[0] for k in keep):
            continue
        try:
            RefSchema(cw.probe_spec(e, extra))
        except (SchemaRejected, TooComplex):
            continue
        keep.append((e, a))
    if len(keep) < 2:
        ctx.count("multi_schemas_skipped")
        return
    spec = cw.probe_spec(keep[0][0], extra)
    del spec["nodes"]["x"]
    for k, (e, a) in enumerate(keep):
        spec["nodes"]["x%d" % k] = {"content": e}
    spec["nodes"]["doc"] = {"content": "(" + " | ".join(["x%d" % k for k in range(len(keep))] + ["a", "b", "c"]) + ")*"}
    S, rs = cw.build(spec)
    if isinstance(rs, (SchemaRejected, TooComplex)):
        ctx.count("multi_schemas_skipped")
        return
    ctx.ev()
    det = {"exprs": [e for e, _ in keep], "alphabet": "multi"}
    if isinstance(S, BaseException):
        ctx.violation("rejected-wellformed", "Schema() raised %s: %s for a schema whose expressions %r are each well-formed" % (type(S).__name__, S, det["exprs"]), det, {"exc": type(S).__name__})
        return
    ctx.count("multi_schemas")
    if len({"".join(e.split()) for e, _ in keep}) < len(keep):
        ctx.count("multi_schemas_with_expressions_equal_up_to_spacing")
    for k, (e, a) in enumerate(keep):
        ctx.count("multi_expressions")
        check_node(ctx, S, rs, "x%d" % k, e, "multi", a or ("name", "?"), rnd, {**det, "expr": e, "node": "x%d" % k})


def floors(tier):
    return {"expressions_wellformed": 10000, "expressions_rejected_expected": 200, "product_pairs": 30000, "match_fragment_checks": 2000, "distinct_nontrivial": 60, "multi_expressions": 500,
            "multi_schemas_with_expressions_equal_up_to_spacing": 50}


def check_expr(ctx, ast, alphabet, rnd, exhaustive):
    expr = ast_print(ast, rnd if not exhaustive or rnd.random() < 0.3 else None)
    spec = cw.probe_spec(expr)
    S, rs = cw.build(spec)
    if isinstance(rs, TooComplex):
        ctx.count("expressions_skipped_too_complex_for_reference")
        return
    ctx.ev()
    det = {"expr": expr, "alphabet": alphabet}
    lib_rejects = isinstance(S, BaseException)
    ref_rejects = isinstance(rs, SchemaRejected)
    if ref_rejects:
        ctx.count("expressions_rejected_expected")
        if lib_rejects:
            ctx.count("rejected_with:%s" % type(S).__name__)
            ctx.cover([alphabet, "rejected", str(rs)[:12], type(S).__name__])
        else:
            ctx.violation("accepted-malformed", "Schema() accepted content expression %r that must be rejected (%s)" % (expr, rs), det, {"reason": str(rs).split(" in ")[0][:30]})
        return
    if lib_rejects and isinstance(S, RecursionError):
        from ..refschema import reachable
        nst = len(reachable(rs.nodes["x"].regex))
        if nst >= 100:
            # interpreter resource limit on an automaton with hundreds of (minimal) states:
            # counted, not judged (a RecursionError on a small automaton is judged)
            ctx.count("expressions_skipped_recursion_limit_on_huge_automaton")
            return
    if lib_rejects:
        ctx.violation("rejected-wellformed", "Schema() raised %s: %s for the well-formed expression %r" % (type(S).__name__, S, expr), det,
                      {"exc": type(S).__name__})
        return
    if "x" in rs.strong_dead_ends:
        ctx.count("expressions_dead_end_behind_loop")
        ctx.violation("accepted-dead-end", "Schema() accepted %r although a required position in it can only be filled by non-generatable nodes "
                      "(every path to a valid end from some reachable state needs a text node or a node with required attributes)" % expr,
                      det, {"immediate_edge_check_passes": True})
    check_node(ctx, S, rs, "x", expr, alphabet, ast, rnd, det)


def check_node(ctx, S, rs, tname, expr, alphabet, ast, rnd, det):
    """Walk the compiled matcher of node type `tname` completely, in product with the
    derivatives of ITS OWN expression as the reference read it from the spec."""
    ctx.count("expressions_wellformed")
    if ctx.counters["expressions_wellformed"] % 500 == 1:
        ctx.sample(det)
    x = S.nodes[tname]
    rx = rs.nodes[tname]
    if x.inline_content != rx.inline_content or x.is_leaf != rx.is_leaf:
        ctx.violation("inline-content", "inline_content/is_leaf of %r = %r/%r, reference %r/%r" % (expr, x.inline_content, x.is_leaf, rx.inline_content, rx.is_leaf), det)
    npairs = 0
    states = set()
    for st, D, path in cw.product(S, rs, tname):
        npairs += 1
        states.add(id(st))
        ctx.count("product_pairs")
        if bool(st.valid_end) != nullable(D):
            ctx.violation("valid_end", "after %r: valid_end = %r but the expression %r %s the sequence" % (list(path), st.valid_end, expr, "matches" if nullable(D) else "does not match"),
                          {**det, "path": list(path)}, {"lib_accepts": bool(st.valid_end)})
            return
        f = first(D)
        edges = []
        for name, nt in S.nodes.items():
            nxt = st.match_type(nt)
            alive = name in f
            if (nxt is not None) != alive:
                ctx.violation("match_type", "after %r: match_type(%s) is %s but %r %s be extended by %s" % (
                    list(path), name, "a state" if nxt is not None else "None", expr, "can" if alive else "cannot", name),
                    {**det, "path": list(path), "next": name}, {"lib_alive": nxt is not None})
                return
        try:
            ec = st.edge_count
            for k in range(ec):
                e = st.edge(k)
                edges.append(e.type.name)
                if e.next is not st.match_type(e.type):
                    ctx.violation("edge", "edge(%d).next is not match_type(edge(%d).type) after %r in %r" % (k, k, list(path), expr), det)
                    return
            try:
                st.edge(ec)
                ctx.violation("edge", "edge(edge_count) did not raise in %r" % expr, det)
                return
            except ValueError:
                pass
        except Exception as e:
            ctx.violation("edge", "edge/edge_count raised %s: %s in %r" % (type(e).__name__, e, expr), det, {"exc": type(e).__name__})
            return
        if sorted(edges) != sorted(f):
            ctx.violation("edge", "edges %r after %r, reference first-set %r (duplicates or missing) in %r" % (edges, list(path), sorted(f), expr), det)
            return
    # match_fragment on real fragments: random walks, accepted and rejected
    from prosemirror.model import Fragment

    names = [n for n in S.nodes if n != "doc" and not n.startswith("x")]
    for _ in range(3):
        seq = []
        D = rx.regex
        for _ in range(rnd.randint(0, 6)):
            f = sorted(first(D)) if D != EMPTY else []
            if f and rnd.random() < 0.85:
                nm = rnd.choice(f)
            else:
                nm = rnd.choice(names)
            seq.append(nm)
            D = deriv(D, nm) if D != EMPTY else EMPTY
        nodes = [S.text("t") if nm == "text" else S.nodes[nm].create({"q": 1} if nm in ("r", "j") else None) for nm in seq]
        frag = Fragment(nodes)  # not from_array: adjacent text nodes must stay separate children
        ctx.count("match_fragment_checks")
        try:
            m = x.content_match.match_fragment(frag)
            vc = x.valid_content(frag)
            lo = rnd.randint(0, len(seq))
            hi = rnd.randint(lo, len(seq))
            part = x.content_match.match_fragment(frag, lo, hi)
        except Exception as e:
            ctx.violation("match_fragment", "match_fragment raised %s: %s" % (type(e).__name__, e), {**det, "seq": seq}, {"exc": type(e).__name__})
            return
        if (m is not None) != (D != EMPTY) or (m is not None and bool(m.valid_end) != nullable(D)) or vc != (D != EMPTY and nullable(D)):
            ctx.violation("match_fragment", "match_fragment/valid_content on %r under %r: alive=%r valid_end=%r valid_content=%r, reference alive=%r matches=%r"
                          % (seq, expr, m is not None, m.valid_end if m else None, vc, D != EMPTY, D != EMPTY and nullable(D)), {**det, "seq": seq})
            return
        Dp = rx.regex
        for nm in seq[lo:hi]:
            Dp = deriv(Dp, nm) if Dp != EMPTY else EMPTY
        if (part is not None) != (Dp != EMPTY):
            ctx.violation("match_fragment", "match_fragment(frag,%d,%d) on %r under %r" % (lo, hi, seq, expr), {**det, "seq": seq})
            return
    ctx.count("max_states", 0)
    if len(states) > ctx.counters.get("max_states_seen", 0):
        ctx.counters["max_states_seen"] = len(states)
    ctx.cover([alphabet, min(ast_size(ast), 8), ast[0], min(len(states), 6), "ok"], nontrivial=ast_size(ast) > 1)


BAD = [
    "zz", "a zz", "(a", "a)", "a{", "a{2", "a{2,", "a{,2}", "a |", "| a", "a | | b", "()", "a (", "a{x}", "+", "a + + (", "a text",
    "text a", "i a", "g inline", "(a | text)", "a{2,3", "a b)", "(a b", "a ,", "a }", "{2}", "a{}", "r", "r a", "a r b", "r+",
    "text+", "j", "j text", "text j+", "(r | r) a", "a (r)", "text{2}", "r{1,2}",
    # unknown names that are part of a declared name or group string
    "gx", "a gx", "xx", "ggxx", "gg gx", "nlin", "ext", "inlin+",
]


def case(ctx, rnd, i):
    S = STRIDES[ctx.tier]
    if i < S:
        k = 0
        for alphabet, names in (("block", cw.BLOCK_NAMES), ("inline", cw.INLINE_NAMES)):
            for size in range(1, MAXSIZE[ctx.tier] + 1):
                for ast in gen.all_asts(names, size):
                    if k % S == i:
                        check_expr(ctx, ast, alphabet, rnd, True)
                    k += 1
        return
    i -= S
    nr = NRANDOM[ctx.tier] // 10
    if i < nr:
        for _ in range(10):
            if rnd.random() < 0.5:
                alphabet, names = "block", cw.BLOCK_NAMES
            else:
                alphabet, names = "inline", cw.INLINE_NAMES
            ast = gen.bounded_ast(rnd, names, rnd.randint(5, 14))
            if rnd.random() < 0.12:
                # a long flat sequence: more than ten automaton states
                terms = []
                for _t in range(rnd.randint(8, 14)):
                    t_ = ("name", rnd.choice(names))
                    q_ = rnd.random()
                    terms.append(("star", t_) if q_ < 0.3 else ("opt", t_) if q_ < 0.45 else ("plus", t_) if q_ < 0.55 else t_)
                ast = ("seq", tuple(terms))
                ctx.count("long_sequence_expressions")
            check_expr(ctx, ast, alphabet, rnd, False)
        return
    i -= nr
    if i < NMULTI[ctx.tier]:
        multi_case(ctx, rnd)
        return
    i -= NMULTI[ctx.tier]
    # malformed strings (not generated from trees)
    expr = BAD[i % len(BAD)]
    spec = cw.probe_spec(expr)
    S_, rs = cw.build(spec)
    ctx.ev()
    ctx.count("malformed_strings")
    if not isinstance(rs, SchemaRejected):
        ctx.count("harness_malformed_not_rejected_by_reference")
        ctx.violation("reference-accepts-malformed", "reference accepts %r (harness list error)" % expr, {"expr": expr})
        return
    if not isinstance(S_, BaseException):
        ctx.violation("accepted-malformed", "Schema() accepted the malformed content expression %r (%s)" % (expr, rs), {"expr": expr}, {"reason": str(rs)[:30]})
    else:
        ctx.count("expressions_rejected_expected")
        ctx.count("rejected_with:%s" % type(S_).__name__)
        ctx.cover(["malformed", expr, type(S_).__name__])
