"""C07 - validity predicates agree exactly with the schema's definition of validity."""
import json

from .. import flat, gen
from ..refschema import EMPTY, matches, nullable, run
from .common import describe_doc, pick_schema

ID = "C07"
LEVEL = "exploration"
RULE = (
    "case = one generated valid document plus 3 deliberately invalid variants (child order swapped, "
    "child removed / duplicated / of a foreign type, forbidden / unsorted / duplicate / mutually "
    "exclusive marks), built through the raw constructors so nothing normalises them. For the "
    "document and every inner node: check() raises exactly when the reference validator rejects; "
    "valid_content, create_checked, Schema.node agree with (expression match and child marks "
    "allowed); can_replace over all 0<=from<=to<=n with replacement fragments from other nodes and "
    "all sub-ranges, can_replace_with over every node type and random mark sets, can_append, "
    "content_match_at compared with the reference regex on the resulting child sequence. distinct = "
    "(schema, predicate, expected answer, reason class, node depth); trivial = replacing nothing "
    "with nothing in a valid node."
)
ASSUMPTIONS = [
    "can_replace/can_replace_with judge the marks of the replacement only (the existing children are the node's own business)",
]


def cases(tier):
    return 5000 if tier == "quick" else 120000


def floors(tier):
    return {"check_calls": 3000, "check_expected_raise": 500, "can_replace_calls": 20000, "can_replace_true": 1000,
            "can_replace_with_calls": 5000, "valid_content_calls": 3000, "distinct_nontrivial": 80}


def raw_build(S, c):
    """Plain tree -> library node through the raw constructors (no sorting, no merging)."""
    from prosemirror.model import Fragment, Node
    from prosemirror.model.node import TextNode

    marks = [S.marks[n].create(json.loads(a)) for n, a in (c[2] if c[0] == "t" else c[3])]
    if c[0] == "t":
        t = S.nodes["text"]
        return TextNode(t, t.default_attrs or {}, c[1], marks)
    t = S.nodes[c[1]]
    kids = [raw_build(S, k) for k in c[4]]
    return Node(t, json.loads(c[2]), Fragment(kids) if kids else Fragment.empty, marks)


def mutate(sch, rnd, g, p):
    """An (often) invalid variant of plain tree p; returns (tree, what)."""
    rs = sch.ref
    paths = []

    def walk(c, path):
        if c[0] == "n":
            paths.append((path, c))
            for i, k in enumerate(c[4]):
                walk(k, path + (i,))

    walk(p, ())
    path, c = rnd.choice(paths)
    kids = list(c[4])
    r = rnd.random()
    what = None
    allm = list(rs.marks)
    if r < 0.15 and len(kids) >= 2:
        i = rnd.randrange(len(kids) - 1)
        kids[i], kids[i + 1] = kids[i + 1], kids[i]
        what = "swap"
    elif r < 0.3 and kids:
        kids.pop(rnd.randrange(len(kids)))
        what = "remove"
    elif r < 0.4 and kids:
        i = rnd.randrange(len(kids))
        kids.insert(i, kids[i])
        what = "duplicate"
    elif r < 0.55:
        tn = rnd.choice([n for n in rs.nodes if n != "text"])
        try:
            nd = g._min_node(tn)
        except Exception:
            nd = None
        if nd is not None:
            kids.insert(rnd.randint(0, len(kids)), nd)
            what = "foreign"
    elif kids and allm:
        i = rnd.randrange(len(kids))
        k = kids[i]
        ms = list(k[2] if k[0] == "t" else k[3])
        rr = rnd.random()
        if rr < 0.35:
            ms.append(g.mark(rnd.choice(allm)))
            what = "mark-added-unsorted"
        elif rr < 0.55 and ms:
            ms.append(ms[0])
            what = "mark-duplicate"
        elif rr < 0.75 and len(ms) >= 2:
            ms.reverse()
            what = "marks-reversed"
        else:
            forbidden = [m for m in allm if not rs.allows_mark(c[1], m)]
            if forbidden:
                ms = list(rs.ref_add(g.mark(rnd.choice(forbidden)), tuple(ms))) if rs.canonical(tuple(ms)) else ms + [g.mark(forbidden[0])]
                what = "mark-forbidden"
        if what:
            kids[i] = ("t", k[1], tuple(ms)) if k[0] == "t" else ("n", k[1], k[2], tuple(ms), k[4])
    if what is None:
        return p, None
    new = ("n", c[1], c[2], c[3], tuple(kids))  # deliberately not merged / normalised

    def put(q, path):
        if not path:
            return new
        ks = list(q[4])
        ks[path[0]] = put(ks[path[0]], path[1:])
        return ("n", q[1], q[2], q[3], tuple(ks))

    return put(p, path), what


def names_of(children):
    return ["text" if c[0] == "t" else c[1] for c in children]


def marks_ok(rs, tname, children):
    for c in children:
        for (mn, _a) in (c[2] if c[0] == "t" else c[3]):
            if not rs.allows_mark(tname, mn):
                return False
    return True


def case(ctx, rnd, i):
    sch = pick_schema(rnd, random_share=0.3)
    if sch is None:
        ctx.count("schema_gen_failed")
        return
    S, rs = sch.schema, sch.ref
    g = gen.DocGen(sch, rnd, mark_p=0.35)
    d, p = g.doc()
    variants = [(d, p, None)]
    for _ in range(3):
        q, what = mutate(sch, rnd, g, p)
        if what is None:
            continue
        try:
            variants.append((raw_build(S, q), q, what))
        except Exception:
            ctx.count("raw_build_failed")
    d2, p2 = g.doc()
    sid = sch.cls if sch.cls == "random" else sch.id
    ctx.sample({"schema": sch.id, "doc": str(d)[:200]})
    for node, tree, what in variants:
        base = {**describe_doc(sch, node), "mutation": what}

        def bad(oracle, msg, **mech):
            ctx.violation(oracle, msg, base, {"predicate": oracle, **mech})

        # ---- check() on the whole document and every inner node
        def each(n_, t_, depth):
            yield n_, t_, depth
            if t_[0] == "n":
                for k_, kt in zip(n_.content.content, t_[4]):
                    yield from each(k_, kt, depth + 1)

        for n_, t_, depth in each(node, tree, 0):
            if t_[0] == "t":
                continue
            why = rs.why_invalid(t_)
            ctx.count("check_calls")
            ctx.ev()
            try:
                n_.check()
                raised = None
            except ValueError as e:
                raised = e
            except Exception as e:
                bad("check", "check() raised %s: %s (not a ValueError)" % (type(e).__name__, e), exc=type(e).__name__)
                continue
            if why is not None:
                ctx.count("check_expected_raise")
            if (raised is not None) != (why is not None):
                bad("check", "check() of %s %s but the reference says %s" % (str(n_)[:200], "raised %r" % str(raised) if raised else "passed", why or "valid"),
                    expected_valid=why is None, reason=(why or "").split(":")[-1].strip().split(" ")[0], mutation=what)
            else:
                ctx.cover([sid, "check", why is None, (why or "").split(":")[-1].strip()[:12], min(depth, 3)], nontrivial=why is not None or depth > 0)
            # ---- valid_content / create_checked / Schema.node on this node's own children
            tname = t_[1]
            exp = rs.valid_children(tname, t_[4])
            ctx.count("valid_content_calls")
            try:
                got = n_.type.valid_content(n_.content)
            except Exception as e:
                bad("valid_content", "valid_content raised %s: %s" % (type(e).__name__, e), exc=type(e).__name__)
                continue
            if got != exp:
                bad("valid_content", "%s.valid_content(%s) = %r, reference %r" % (tname, str(n_.content)[:200], got, exp), expected=exp)
            for ctor in ("create_checked", "schema.node"):
                try:
                    if ctor == "create_checked":
                        made = n_.type.create_checked(n_.attrs, n_.content, n_.marks)
                    else:
                        made = S.node(tname if rnd.random() < 0.5 else n_.type, n_.attrs, n_.content, n_.marks)
                    ok = True
                except ValueError:
                    ok = False
                except Exception as e:
                    bad(ctor, "%s raised %s: %s" % (ctor, type(e).__name__, e), exc=type(e).__name__)
                    continue
                if ok != exp:
                    bad(ctor, "%s for %s with content %s %s, content is %s" % (ctor, tname, str(n_.content)[:200], "succeeded" if ok else "raised", "valid" if exp else "invalid"), expected=exp)
                elif ok and flat.pt_frag(made.content) != t_[4]:
                    bad(ctor, "%s changed the content" % ctor)
            ctx.cover([sid, "valid_content", exp, what], nontrivial=not exp or depth > 0)
            if rnd.random() < 0.5 or depth == 0:
                _replace_predicates(ctx, sch, rnd, g, n_, t_, d2, p2, bad, sid, depth, what)


def _replace_predicates(ctx, sch, rnd, g, n_, t_, d2, p2, bad, sid, depth, what):
    from prosemirror.model import Fragment

    S, rs = sch.schema, sch.ref
    tname = t_[1]
    regex = rs.nodes[tname].regex
    kids = t_[4]
    seq = names_of(kids)
    n = len(kids)
    # replacement fragments: children of a random inner node of another document, and own
    pool = [(n_.content, kids)]
    inner = []

    def collect(node, tree):
        if tree[0] == "n" and tree[4]:
            inner.append((node.content, tree[4]))
            for k_, kt in zip(node.content.content, tree[4]):
                collect(k_, kt)

    collect(d2, p2)
    if inner:
        pool += rnd.sample(inner, min(2, len(inner)))
    pool.append((Fragment.empty, ()))
    # content_match_at
    for idx in range(n + 1):
        st = run(regex, seq[:idx])
        try:
            m = n_.content_match_at(idx)
            if st == EMPTY:
                bad("content_match_at", "content_match_at(%d) returned a state for a dead prefix %r" % (idx, seq[:idx]))
            elif bool(m.valid_end) != nullable(st):
                bad("content_match_at", "content_match_at(%d).valid_end = %r, reference %r" % (idx, m.valid_end, nullable(st)))
        except ValueError:
            if st != EMPTY:
                bad("content_match_at", "content_match_at(%d) raised for the live prefix %r" % (idx, seq[:idx]))
        except Exception as e:
            bad("content_match_at", "content_match_at raised %s: %s" % (type(e).__name__, e), exc=type(e).__name__)
    ranges = [(a, b) for a in range(n + 1) for b in range(a, n + 1)]
    if len(ranges) > 15:
        ranges = rnd.sample(ranges, 15)
    for a, b in ranges:
        prefix_alive = run(regex, seq[:a]) != EMPTY
        for frag, fk in pool:
            m = len(fk)
            subs = [(0, m)] if m == 0 else [(0, m)] + [(s, e) for s in range(m + 1) for e in range(s, m + 1) if rnd.random() < 0.25][:4]
            for s, e in subs:
                ctx.count("can_replace_calls")
                ctx.ev()
                newseq = seq[:a] + names_of(fk[s:e]) + seq[b:]
                exp = matches(regex, newseq) and marks_ok(rs, tname, fk[s:e])
                try:
                    if (s, e) == (0, m) and rnd.random() < 0.5:
                        got = n_.can_replace(a, b, frag) if m else (n_.can_replace(a, b) if rnd.random() < 0.5 else n_.can_replace(a, b, frag))
                    else:
                        got = n_.can_replace(a, b, frag, s, e)
                except ValueError:
                    if prefix_alive:
                        bad("can_replace", "can_replace(%d,%d) raised ValueError although the prefix %r is alive" % (a, b, seq[:a]))
                    else:
                        ctx.count("can_replace_dead_prefix_raises")
                    continue
                except Exception as ex:
                    bad("can_replace", "can_replace raised %s: %s" % (type(ex).__name__, ex), exc=type(ex).__name__)
                    continue
                if not prefix_alive:
                    if got:
                        bad("can_replace", "can_replace(%d,%d) is True on a dead prefix" % (a, b))
                    continue
                if got:
                    ctx.count("can_replace_true")
                if bool(got) != exp:
                    bad("can_replace", "%s%r.can_replace(%d,%d,%r[%d:%d]) = %r; resulting sequence %r %s the expression, marks %s" % (
                        tname, seq, a, b, names_of(fk), s, e, got, newseq, "matches" if matches(regex, newseq) else "does not match",
                        "allowed" if marks_ok(rs, tname, fk[s:e]) else "not allowed"),
                        expected=exp, marks_problem=not marks_ok(rs, tname, fk[s:e]), subrange=(s, e) != (0, m))
                else:
                    ctx.cover([sid, "can_replace", exp, min(depth, 2), a == b, s != 0 or e != m, what is None], nontrivial=not (a == b and s == e and what is None))
        # can_replace_with over every type and a random mark set
        for tn in rs.nodes:
            ms = g.marks_for(tname, 0.3) if rnd.random() < 0.4 else ()
            if rnd.random() < 0.2 and rs.marks:
                ms = (g.mark(rnd.choice(list(rs.marks))),)
            ctx.count("can_replace_with_calls")
            newseq = seq[:a] + [tn] + seq[b:]
            exp = matches(regex, newseq) and all(rs.allows_mark(tname, m_[0]) for m_ in ms)
            try:
                got = n_.can_replace_with(a, b, S.nodes[tn], flat.build_marks(S, ms) if ms else None)
            except ValueError:
                if prefix_alive:
                    bad("can_replace_with", "can_replace_with raised ValueError on a live prefix")
                continue
            except Exception as ex:
                bad("can_replace_with", "can_replace_with raised %s: %s" % (type(ex).__name__, ex), exc=type(ex).__name__)
                continue
            if not prefix_alive:
                continue
            if bool(got) != exp:
                bad("can_replace_with", "%s%r.can_replace_with(%d,%d,%s,marks=%r) = %r, reference %r" % (tname, seq, a, b, tn, ms, got, exp), expected=exp, with_marks=bool(ms))
            else:
                ctx.cover([sid, "can_replace_with", exp, bool(ms)], nontrivial=True)
    # can_append
    for frag, fk in pool:
        if not fk:
            continue
        other = None
        # find a node owning that fragment
        for cand in [n_] + [x for x in d2.content.content]:
            if cand.content is frag:
                other = cand
        if other is None:
            try:
                other = n_.type.create(n_.attrs, frag)
            except Exception:
                continue
        exp = matches(regex, seq + names_of(fk)) and marks_ok(rs, tname, fk)
        if run(regex, seq) == EMPTY:
            continue
        ctx.count("can_append_calls")
        try:
            got = n_.can_append(other)
        except Exception as ex:
            bad("can_append", "can_append raised %s: %s" % (type(ex).__name__, ex), exc=type(ex).__name__)
            continue
        if bool(got) != exp:
            bad("can_append", "%s%r.can_append(node with children %r) = %r, reference %r" % (tname, seq, names_of(fk), got, exp), expected=exp)
    # can_append with an EMPTY node: nothing is appended, so the resulting child sequence is the
    # node's own.  (The library additionally wants the two types to share a possible first child -
    # documented upstream, recorded as a known finding keyed on exactly that fact.)
    from ..refschema import first as _first

    if matches(regex, seq) and marks_ok(rs, tname, kids):
        cands = [x for x, t_ in rs.nodes.items() if not t_.is_text and not t_.is_leaf and not t_.required_attrs]
        for on in rnd.sample(cands, min(3, len(cands))):
            try:
                other = S.nodes[on].create()
                got = n_.can_append(other)
            except Exception as ex:
                bad("can_append", "can_append(empty %s) raised %s: %s" % (on, type(ex).__name__, ex), exc=type(ex).__name__, empty_argument=True)
                continue
            ctx.count("can_append_empty_calls")
            common = on == tname or bool(set(_first(regex)) & set(_first(rs.nodes[on].regex)))
            if not got:
                bad("can_append", "%s%r.can_append(empty %s) = %r although appending nothing leaves the valid child sequence unchanged" % (tname, seq, on, got),
                    expected=True, empty_argument=True, types_share_a_first_child=common)
            else:
                ctx.cover([sid, "can_append-empty", common], nontrivial=True)
