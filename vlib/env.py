"""Import the library under test from the *working tree* of $VERIF_REPO (default /repo).

Nothing is installed or copied: the tree's directory is put first on sys.path, so every
check sees the sources as they are on disk right now.  Byte-code is not written.
"""
import faulthandler
import os
import sys

sys.dont_write_bytecode = True
REPO = os.environ.get("VERIF_REPO", "/repo")
VERIF = os.path.dirname(os.path.dirname(os.path.abspath(__file__)))
GUARD = "FELLOWAPP_PROSEMIRROR_PY_VERIF"

if REPO not in sys.path:
    sys.path.insert(0, REPO)
os.environ.setdefault(GUARD, "1")
try:
    faulthandler.enable()
except Exception:  # pragma: no cover
    pass

import prosemirror  # noqa: E402

_loaded = os.path.dirname(os.path.dirname(os.path.abspath(prosemirror.__file__)))
if os.path.realpath(_loaded) != os.path.realpath(REPO):
    raise SystemExit(
        f"vlib.env: prosemirror imported from {_loaded}, expected working tree {REPO}"
    )
