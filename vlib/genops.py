"""Generator of high-level Transform operations with arbitrary in-range arguments.

An Op carries a name, a JSON-able description of its arguments, and a function that
performs it on a Transform.  Payload nodes (inserted nodes, retype targets) are generated
valid by the reference (NodeType.create is unchecked; an invalid payload would be
garbage-in)."""
import json

from . import flat, gensteps

REPLACE_FAMILY = ["replace", "replace_with", "insert", "delete", "replace_range", "replace_range_with", "delete_range"]
MARK_OPS = ["add_mark", "remove_mark"]
STRUCT_OPS = ["split", "join", "lift", "wrap"]
NODE_OPS = ["set_block_type", "set_node_markup", "set_node_attribute", "set_doc_attribute", "add_node_mark", "remove_node_mark"]
ALL_OPS = REPLACE_FAMILY + MARK_OPS + STRUCT_OPS + NODE_OPS


class Op:
    def __init__(self, name, args, fn):
        self.name = name
        self.args = args
        self.fn = fn

    def describe(self):
        return {"op": self.name, "args": self.args}


def valid_node(sch, g, tname, tries=6, budget=8):
    """A library node of the given type that the reference finds valid, or None."""
    rs = sch.ref
    if rs.nodes[tname].is_text:
        m = g.marks_for(rs.top, 0.0)
        return sch.schema.text(g.text())
    for _ in range(tries):
        try:
            p = g.node(tname, 3, budget)
        except ValueError:
            return None
        if rs.why_invalid(p) is None:
            return flat.build(sch.schema, p)
    return None


def sibling_run(sch, rnd, g, maxlen=2):
    """A list of 1..maxlen library nodes that are consecutive children of one parent in a
    freshly generated valid document (so the fragment is well-formed: never a mix of block
    and inline nodes), or None."""
    try:
        d, p = g.doc()
    except Exception:
        return None
    parents = []

    def walk(node):
        if node.child_count:
            parents.append(node)
            for c in node.content.content:
                if not c.is_text:
                    walk(c)

    walk(d)
    if not parents:
        return None
    par = rnd.choice(parents)
    k = rnd.randint(1, min(maxlen, par.child_count))
    i = rnd.randint(0, par.child_count - k)
    return list(par.content.content[i:i + k])


def gen_op(sch, rnd, g, doc, slices, kinds=None):
    """One operation for the current document `doc` of a Transform."""
    from prosemirror.model import Fragment, Slice
    from prosemirror.transform import structure

    rs = sch.ref
    S = sch.schema
    p = flat.pt(doc)
    tk = flat.toks(p[4], sch.leaf)
    n = len(tk)
    name = rnd.choice(kinds or ALL_OPS)
    starts = gensteps.node_starts(tk)

    def pair():
        a = rnd.randint(0, n)
        return a, rnd.randint(a, min(n, a + rnd.choice([0, 1, 2, 4, 8, n, n])))

    def some_node(inline=None):
        names = [x for x, t in rs.nodes.items() if x != rs.top and (inline is None or t.inline == inline)]
        rnd.shuffle(names)
        for x in names[:4]:
            nd = valid_node(sch, g, x)
            if nd is not None:
                if nd.is_inline and not nd.is_text and rnd.random() < 0.3:
                    ms = gensteps.random_mark(sch, rnd, g)
                    if ms is not None:
                        nd = nd.mark([ms])
                return nd
        return None

    def sl():
        return rnd.choice(slices) if slices and rnd.random() < 0.85 else Slice.empty

    if name == "replace":
        a, b = pair()
        s = sl()
        return Op(name, {"from": a, "to": b, "slice": s.to_json(), "open": [s.open_start, s.open_end]}, lambda tr: tr.replace(a, b, s))
    if name == "replace_with":
        a, b = pair()
        nodes = sibling_run(sch, rnd, g) if rnd.random() < 0.5 else [x for x in [some_node()] if x is not None]
        if not nodes:
            return gen_op(sch, rnd, g, doc, slices, ["delete"])
        content = nodes[0] if len(nodes) == 1 and rnd.random() < 0.5 else Fragment.from_(nodes)
        return Op(name, {"from": a, "to": b, "content": str(content)[:200]}, lambda tr: tr.replace_with(a, b, content))
    if name == "insert":
        a = rnd.randint(0, n)
        nd = some_node()
        if nd is None:
            return gen_op(sch, rnd, g, doc, slices, ["delete"])
        return Op(name, {"pos": a, "node": nd.to_json()}, lambda tr: tr.insert(a, nd))
    if name == "delete":
        a, b = pair()
        return Op(name, {"from": a, "to": b}, lambda tr: tr.delete(a, b))
    if name == "replace_range":
        a, b = pair()
        s = sl()
        return Op(name, {"from": a, "to": b, "slice": s.to_json(), "open": [s.open_start, s.open_end]}, lambda tr: tr.replace_range(a, b, s))
    if name == "replace_range_with":
        a, b = pair()
        if rnd.random() < 0.5:
            b = a
        nd = some_node()
        if nd is None:
            return gen_op(sch, rnd, g, doc, slices, ["delete_range"])
        return Op(name, {"from": a, "to": b, "node": nd.to_json()}, lambda tr: tr.replace_range_with(a, b, nd))
    if name == "delete_range":
        a, b = pair()
        return Op(name, {"from": a, "to": b}, lambda tr: tr.delete_range(a, b))

    if name == "add_mark":
        a, b = pair()
        m = gensteps.random_mark(sch, rnd, g)
        if m is None:
            return gen_op(sch, rnd, g, doc, slices, ["delete"])
        if rnd.random() < 0.35:
            sm = gensteps.seam_mark(sch, rnd, g, tk, n)
            if sm is not None:
                a, b, m = sm
        return Op(name, {"from": a, "to": b, "mark": m.to_json()}, lambda tr: tr.add_mark(a, b, m))
    if name == "remove_mark":
        a, b = pair()
        r = rnd.random()
        m = gensteps.random_mark(sch, rnd, g)
        if m is None or r < 0.2:
            return Op(name, {"from": a, "to": b, "mark": None}, lambda tr: tr.remove_mark(a, b, None))
        if r < 0.5:
            mt = m.type
            return Op(name, {"from": a, "to": b, "mark_type": mt.name}, lambda tr: tr.remove_mark(a, b, mt))
        return Op(name, {"from": a, "to": b, "mark": m.to_json()}, lambda tr: tr.remove_mark(a, b, m))

    if name == "split":
        a = rnd.randint(0, n)
        depth = rnd.choice([1, 1, 1, 2, 2, 3])
        ta = None
        if rnd.random() < 0.25:
            tbs = [x for x, t in rs.nodes.items() if t.inline_content and not t.required_attrs]
            if tbs:
                ta = [structure.NodeTypeWithAttrs(S.nodes[rnd.choice(tbs)], None)]
        if rnd.random() < 0.6:
            # let the helper choose among a few candidates, so that approved splits are common
            for _ in range(6):
                try:
                    if structure.can_split(doc, a, depth, ta):
                        break
                except Exception:
                    pass
                a = rnd.randint(0, n)
        return Op(name, {"pos": a, "depth": depth, "types_after": [t.type.name for t in ta] if ta else None},
                  lambda tr: tr.split(a, depth, ta))
    if name == "join":
        a = rnd.randint(0, n)
        depth = rnd.choice([1, 1, 1, 2])
        if rnd.random() < 0.6:
            cands = [i for i in range(1, n) if tk[i - 1][0] == "C" and tk[i][0] == "O"]
            if cands:
                a = rnd.choice(cands)
        return Op(name, {"pos": a, "depth": depth}, lambda tr: tr.join(a, depth))
    if name in ("lift", "wrap"):
        a, b = pair()
        wname = rnd.choice([x for x, t in rs.nodes.items() if not t.is_leaf and not t.is_text])

        def fn(tr, a=a, b=b):
            ra, rb = tr.doc.resolve(a), tr.doc.resolve(b)
            rng = ra.block_range(rb)
            if rng is None:
                raise ValueError("no block range")
            if name == "lift":
                t = structure.lift_target(rng)
                if t is None:
                    t = max(0, rng.depth - 1)
                return tr.lift(rng, t)
            wt = S.nodes[wname]
            at = g.attrs(rs.nodes[wname].attrs, wname)
            w = structure.find_wrapping(rng, wt, at)
            if w is None:
                w = [structure.NodeTypeWithAttrs(wt, at)]
            return tr.wrap(rng, w)

        return Op(name, {"from": a, "to": b, "wrapper": wname if name == "wrap" else None}, fn)

    if name == "set_block_type":
        a, b = pair()
        tbs = [x for x, t in rs.nodes.items() if t.inline_content and not t.inline]
        if not tbs:
            return gen_op(sch, rnd, g, doc, slices, ["delete"])
        tn = rnd.choice(tbs)
        at = g.attrs(rs.nodes[tn].attrs, tn)
        return Op(name, {"from": a, "to": b, "type": tn, "attrs": at}, lambda tr: tr.set_block_type(a, b, S.nodes[tn], at))
    if name == "set_node_markup":
        pos = rnd.choice(starts) if starts and rnd.random() < 0.9 else rnd.randint(0, n)
        cur = tk[pos][1] if pos < n and tk[pos][0] in ("O", "L") else None
        if cur is not None and rnd.random() < 0.5:
            tn = cur
        else:
            tn = rnd.choice([x for x, t in rs.nodes.items() if not t.is_text])
        at = g.attrs(rs.nodes[tn].attrs, tn, 0.6)
        ms = None
        if rnd.random() < 0.2:
            m = gensteps.random_mark(sch, rnd, g)
            ms = [m] if m is not None else None
        return Op(name, {"pos": pos, "type": tn, "attrs": at, "marks": [m.to_json() for m in ms] if ms else None},
                  lambda tr: tr.set_node_markup(pos, S.nodes[tn], at, ms))
    if name == "set_node_attribute":
        cands = [i for i in starts if rs.nodes[tk[i][1]].attrs]
        if not cands:
            return gen_op(sch, rnd, g, doc, slices, ["add_node_mark"])
        pos = rnd.choice(cands)
        an = rnd.choice(list(rs.nodes[tk[pos][1]].attrs))
        val = g.attr_value(tk[pos][1], an)
        if val is None and not rs.nodes[tk[pos][1]].attrs[an][0]:
            val = "x"
        return Op(name, {"pos": pos, "attr": an, "value": val}, lambda tr: tr.set_node_attribute(pos, an, val))
    if name == "set_doc_attribute":
        decl = list(rs.nodes[rs.top].attrs)
        if not decl:
            return gen_op(sch, rnd, g, doc, slices, ["add_node_mark"])
        an = rnd.choice(decl)
        val = g.attr_value(rs.top, an)
        return Op(name, {"attr": an, "value": val}, lambda tr: tr.set_doc_attribute(an, val))
    if name in ("add_node_mark", "remove_node_mark"):
        m = gensteps.random_mark(sch, rnd, g)
        if m is None or not starts:
            return gen_op(sch, rnd, g, doc, slices, ["delete"])
        pos = rnd.choice(starts) if rnd.random() < 0.9 else rnd.randint(0, n)
        if name == "add_node_mark":
            return Op(name, {"pos": pos, "mark": m.to_json()}, lambda tr: tr.add_node_mark(pos, m))
        if rnd.random() < 0.4:
            mt = m.type
            return Op(name, {"pos": pos, "mark_type": mt.name}, lambda tr: tr.remove_node_mark(pos, mt))
        return Op(name, {"pos": pos, "mark": m.to_json()}, lambda tr: tr.remove_node_mark(pos, m))
    raise ValueError(name)
