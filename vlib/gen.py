"""Seeded generators: content-expression ASTs, documents (as plain trees, valid by the
reference, then materialised through the library's unchecked constructors), marks, slices.
"""
import json

from . import flat
from .flat import akey
from .refschema import EMPTY, deriv, first, nullable

TEXT_PLAIN = ["a", "b", "c", "d", " ", "e"]
TEXT_WIDE = ["é", "中", "\U0001F600", "\U00010348", "\n"]
ATTR_VALUES = [1, 2, 3, "x", "yz"]


# ------------------------------------------------------------------ expressions


def random_ast(rnd, names, size):
    """Random expression AST with about `size` nodes over the given names."""
    if size <= 1:
        return ("name", rnd.choice(names))
    r = rnd.random()
    if r < 0.3:
        k = rnd.randint(2, min(3, size))
        parts = _split(rnd, size - 1, k)
        return ("seq", [random_ast(rnd, names, p) for p in parts])
    if r < 0.5:
        k = rnd.randint(2, min(3, size))
        parts = _split(rnd, size - 1, k)
        return ("choice", [random_ast(rnd, names, p) for p in parts])
    if r < 0.65:
        return ("star", random_ast(rnd, names, size - 1))
    if r < 0.78:
        return ("plus", random_ast(rnd, names, size - 1))
    if r < 0.9:
        return ("opt", random_ast(rnd, names, size - 1))
    lo = rnd.randint(0, 3)
    kind = rnd.random()
    hi = lo if kind < 0.35 else (-1 if kind < 0.55 else lo + rnd.randint(1, 3))
    return ("range", lo, hi, random_ast(rnd, names, size - 1))


def ast_weight(ast):
    """Rough size of the automaton an expression expands to (ranges multiply)."""
    k = ast[0]
    if k == "name":
        return 1
    if k in ("seq", "choice"):
        return sum(ast_weight(e) for e in ast[1])
    if k == "range":
        lo, hi = ast[1], ast[2]
        return ast_weight(ast[3]) * max(1, hi if hi != -1 else lo + 1)
    return ast_weight(ast[1]) + 1


def near_value(rnd, v):
    """A JSON value that differs from v as little as possible: a list extended / cut by one
    element (so one is a strict prefix of the other), a dict with one key more / fewer, the
    falsy family None / 0 / "" / [] / {} swapped among themselves, a string one character
    longer.  No booleans and no floats (0 == False and 1 == 1.0 in Python but not in JSON)."""
    if isinstance(v, list):
        r = rnd.random()
        if v and r < 0.4:
            return v[:-1]
        if r < 0.8:
            return v + [rnd.choice([0, 1, "v", None, []])]
        return {} if not v else [v[0]] * len(v) if len(set(map(repr, v))) > 1 else v + v
    if isinstance(v, dict):
        if v and rnd.random() < 0.4:
            k = rnd.choice(sorted(v))
            return {a: b for a, b in v.items() if a != k}
        return {**v, "n%d" % rnd.randint(0, 2): rnd.choice([None, 0, 1])} if rnd.random() < 0.8 or v else []
    if v is None or v == 0 or v == "":
        return rnd.choice([x for x in (None, 0, "", [], {}) if x != v or type(x) is not type(v)])
    if isinstance(v, str):
        return v + "x" if rnd.random() < 0.5 else (v[:-1] or "y")
    if isinstance(v, int):
        return rnd.choice([v + 1, str(v), [v]])
    return None


def bounded_ast(rnd, names, size, max_weight=60):
    for _ in range(50):
        a = random_ast(rnd, names, size)
        if ast_weight(a) <= max_weight:
            return a
    return ("name", names[0])


def _split(rnd, total, k):
    total = max(total, k)
    cuts = sorted(rnd.sample(range(1, total), k - 1)) if total > k else list(range(1, k))
    parts = []
    prev = 0
    for c in [*cuts, total]:
        parts.append(max(1, c - prev))
        prev = c
    return parts


def all_asts(names, size):
    """Every AST with exactly `size` nodes (ranges limited to lo,hi <= 2)."""
    if size == 1:
        for n in names:
            yield ("name", n)
        return
    for sub in all_asts(names, size - 1):
        yield ("star", sub)
        yield ("plus", sub)
        yield ("opt", sub)
        for lo, hi in RANGES:
            yield ("range", lo, hi, sub)
    # binary seq / choice (n-ary ones arise by nesting)
    for ls in range(1, size - 1):
        rs_ = size - 1 - ls
        if rs_ < 1:
            continue
        for a in all_asts(names, ls):
            for b in all_asts(names, rs_):
                yield ("seq", [a, b])
                yield ("choice", [a, b])


RANGES = [(0, 0), (1, 1), (2, 2), (0, -1), (1, -1), (2, -1), (0, 1), (0, 2), (1, 2), (1, 3), (0, 3), (3, 3)]


# ------------------------------------------------------------------ documents


class DocGen:
    def __init__(self, sch, rnd, wide=0.15, max_depth=6, lone=False, mark_p=0.25):
        self.sch = sch
        self.rs = sch.ref
        self.rnd = rnd
        self.wide = wide
        self.max_depth = max_depth
        self.lone = lone
        self.mark_p = mark_p

    # -- attrs / marks
    def attr_value(self, owner, name):
        rnd = self.rnd
        if name == "level":
            return rnd.randint(1, 4)
        if name == "order":
            return rnd.randint(1, 5)
        if name == "meta":
            return rnd.choice([None, 1, 2, {"k": [1, "v"]}, 0, ""])
        if name in ("href", "src"):
            return rnd.choice(["x", "y.png", "http://a/b?c=1&d=2"])
        if name in ("title", "alt"):
            return rnd.choice([None, "t", 'q"uo<te'])
        if getattr(self, "nested_attrs", False) and rnd.random() < 0.25:
            return rnd.choice([[1, {"z": 2}], {"y": [1, "w"]}, [], {}])
        if rnd.random() < 0.12:
            return rnd.choice([0, ""])  # falsy but not None: legitimate values (no booleans: 0 == False in Python)
        return rnd.choice(ATTR_VALUES)

    def attrs(self, decl, owner, p_override=0.3):
        out = {}
        for a, (has, d) in decl.items():
            if not has or self.rnd.random() < p_override:
                v = self.attr_value(owner, a)
                if v is None and not has:
                    v = "x"
                if v is None:
                    v = d
                out[a] = v
            else:
                out[a] = d
        return out

    def mark(self, mname):
        m = self.rs.marks[mname]
        return (mname, akey(self.attrs(m.attrs, mname)))

    def marks_for(self, parent, p=None):
        """A canonical mark set (tuple of keys) allowed inside `parent`."""
        p = self.mark_p if p is None else p
        out = ()
        for mname in self.rs.marks:
            if self.rs.allows_mark(parent, mname) and self.rnd.random() < p:
                out = self.rs.ref_add(self.mark(mname), out)
                # a type that does not exclude itself may occur twice with different attrs
                if self.rs.marks[mname].attrs and not self.rs.excludes(mname, mname) and self.rnd.random() < 0.4:
                    m = self.rs.marks[mname]
                    out = self.rs.ref_add((mname, akey(self.attrs(m.attrs, mname, p_override=1.0))), out)
        return out

    def text(self):
        rnd = self.rnd
        n = rnd.randint(1, 4)
        s = []
        for _ in range(n):
            if getattr(self, "odd_chars", False) and rnd.random() < 0.04:
                # characters that codecs treat specially (byte order marks, noncharacters, NUL-like)
                s.append(rnd.choice(["\ufeff", "\ufffe", "\uffff", "\u200b"]))
            elif rnd.random() < self.wide:
                s.append(rnd.choice(TEXT_WIDE))
            else:
                s.append(rnd.choice(TEXT_PLAIN))
        if self.lone and rnd.random() < 0.05:
            s.insert(rnd.randint(0, len(s)), rnd.choice(["\ud83d", "\ude00"]))
        t = "".join(s)
        return flat.units_to_str(flat.units(t))  # re-pairs accidental surrogate pairs

    # -- nodes
    def node(self, tname, depth, budget):
        rs = self.rs
        t = rs.nodes[tname]
        a = akey(self.attrs(t.attrs, tname))
        if t.is_leaf:
            return ("n", tname, a, (), ())
        kids = self.children(tname, depth, budget - 2)
        return ("n", tname, a, (), kids)

    def children(self, tname, depth, budget):
        rs, rnd = self.rs, self.rnd
        t = rs.nodes[tname]
        ms = rs.minsize()
        r = t.regex
        kids = []
        used = 0
        maxkids = rnd.randint(1, 5)
        block_mark_ok = (not t.inline_content) and (t.mark_set is None or len(t.mark_set) > 0)
        while True:
            f = [x for x in sorted(first(r)) if ms[x] != float("inf")]
            tight = depth >= self.max_depth or used >= budget or len(kids) >= maxkids
            if nullable(r) and (tight or not f or rnd.random() < 0.3):
                break
            if tight or not f:
                _, seq = rs.cheapest_completion(r)
                if seq is None:
                    raise ValueError("not well-founded: " + tname)
                for s in seq:
                    kids.append(self._child(tname, s, depth, 0, block_mark_ok, cheap=True))
                break
            # prefer cheap symbols when little budget is left
            room = budget - used
            cands = [x for x in f if ms[x] <= max(room, 1)] or f
            s = rnd.choice(cands)
            k = self._child(tname, s, depth, room, block_mark_ok)
            kids.append(k)
            used += flat.node_size(k, rs.leaf)
            r = deriv(r, s)
            assert r != EMPTY
        return merge_text(kids)

    def _child(self, parent, s, depth, room, block_mark_ok, cheap=False):
        rs = self.rs
        if s == "text":
            return ("t", "x" if cheap else self.text(), () if cheap else self.marks_for(parent))
        st = rs.nodes[s]
        if cheap:
            k = self._min_node(s)
        else:
            k = self.node(s, depth + 1, room)
        if st.inline:
            k = (k[0], k[1], k[2], self.marks_for(parent), k[4])
        elif block_mark_ok and self.rnd.random() < 0.3:
            k = (k[0], k[1], k[2], self.marks_for(parent, 0.4), k[4])
        return k

    def _min_node(self, tname):
        rs = self.rs
        t = rs.nodes[tname]
        a = akey(self.attrs(t.attrs, tname, p_override=0.0))
        if t.is_leaf:
            return ("n", tname, a, (), ())
        _, seq = rs.cheapest_completion(t.regex)
        kids = [("t", "x", ()) if s == "text" else self._min_node(s) for s in seq]
        return ("n", tname, a, (), merge_text(kids))

    def doc_pt(self, budget=None):
        rnd = self.rnd
        if budget is None:
            budget = rnd.choice([6, 10, 16, 24, 36, 50])
        rs = self.rs
        for _ in range(30):
            d = self.node(rs.top, 0, budget)
            if rs.nodes[rs.top].mark_set is None or True:
                pass
            if flat.size(d[4], rs.leaf) <= 90 and rs.valid(d):
                return d
        d = self._min_node(rs.top)
        if rs.valid(d):
            return d
        raise ValueError("cannot generate a valid document for " + self.sch.id)

    def doc(self, budget=None):
        """(library node, plain tree)."""
        p = self.doc_pt(budget)
        n = flat.build(self.sch.schema, p)
        q = flat.pt(n)
        if q != p:
            raise AssertionError("materialised document differs from its plain tree")
        return n, p


def merge_text(kids):
    out = []
    for k in kids:
        if k[0] == "t" and out and out[-1][0] == "t" and out[-1][2] == k[2]:
            out[-1] = ("t", out[-1][1] + k[1], k[2])
        else:
            out.append(k)
    # re-pair surrogates that became adjacent
    out = [
        ("t", flat.units_to_str(flat.units(k[1])), k[2]) if k[0] == "t" else k for k in out
    ]
    return tuple(out)


def compatible_ends(tk, prof, rnd, tries=20):
    """A pair a<=b of positions; uniform, or biased to equal depth."""
    n = len(tk)
    a = rnd.randint(0, n)
    b = rnd.randint(a, n)
    return a, b


def jsonable(x):
    try:
        json.dumps(x)
        return True
    except Exception:
        return False
