#!/venv/bin/python
"""Rewrite the generated tables of DESIGN.md (between <!-- BEGIN:x --> / <!-- END:x --> markers)
from known_findings.json, seeded/*/meta.json and selftest/mutations.json, so that the
document cannot drift from the machine-readable files."""
import json
import os
import re

V = os.path.dirname(os.path.dirname(os.path.abspath(__file__)))
K = json.load(open(os.path.join(V, "known_findings.json")))["findings"]


def esc(s):
    return str(s).replace("|", "/").replace("\n", " ")


fixed = ["| property | commit | what failed (witness found by the check) | cause |", "|---|---|---|---|"]
for e in K:
    if e["status"] == "fixed":
        what = e["line"].split(" ", 3)[3] if e.get("line") else ""
        fixed.append("| %s | `%s` | %s | %s |" % (e["property"], e.get("commit", "?"), esc(what), esc(e.get("mechanism", ""))))
known = ["| key | what fails | classified by (predicate in vlib/known.py) |", "|---|---|---|"]
for e in K:
    if e["status"] == "known":
        known.append("| %s | %s | %s |" % (e["key"], esc(e.get("short") or e["mechanism"]), esc(e.get("match", ""))))
seeds = ["| seed | needs to manifest | caught by | history |", "|---|---|---|---|"]
for d in sorted(os.listdir(os.path.join(V, "seeded"))):
    p = os.path.join(V, "seeded", d, "meta.json")
    if os.path.exists(p):
        m = json.load(open(p))
        v = m.get("verif", {})
        seeds.append("| %s | %s | %s | %s |" % (d, esc(m.get("what_it_needs_to_manifest", ""))[:220], esc(v.get("caught_by", "?")), esc(v.get("note", ""))))
muts = json.load(open(os.path.join(V, "selftest", "mutations.json")))
mt = ["| mutation | checks | expectation | what it does |", "|---|---|---|---|"]
for m in muts:
    mt.append("| %s | %s | %s | %s |" % (m["id"], ",".join(m["properties"]), "must stay silent (control)" if m.get("expect") == "silent" else "caught", esc(m.get("note", ""))))
blocks = {"fixed": "\n".join(fixed), "known": "\n".join(known), "seeds": "\n".join(seeds), "mutations": "\n".join(mt)}
p = os.path.join(V, "DESIGN.md")
s = open(p).read()
for name, body in blocks.items():
    pat = re.compile(r"(<!-- BEGIN:%s -->\n)(.*?)(<!-- END:%s -->)" % (name, name), re.S)
    if not pat.search(s):
        raise SystemExit("marker %s missing in DESIGN.md" % name)
    s = pat.sub(lambda m_: m_.group(1) + body + "\n" + m_.group(3), s)
open(p, "w").write(s)
print("fixed %d, known %d, seeds %d, mutations %d" % (len(fixed) - 2, len(known) - 2, len(seeds) - 2, len(mt) - 2))
