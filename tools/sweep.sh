#!/bin/bash
# tools/sweep.sh [tier] [seeds...]  - run every registered check for the given seeds, print one line each
tier=${1:-quick}; shift
seeds=${@:-0 1 2}
cd "$(dirname "$0")/.."
for s in $seeds; do
  for p in C01 C02 C03 C04 C05 C06 C07 C08 C09 C10 C11 C12 C13 C14 C15 C16 C17 C18 C19 C20; do
    start=$(date +%s.%N)
    out=$(PYTHONHASHSEED=0 ./check $p --tier $tier --seed $s 2>&1); rc=$?
    end=$(date +%s.%N)
    printf "%s seed=%s rc=%s %.1fs %s\n" $p $s $rc $(echo "$end - $start" | bc) "$(echo "$out" | grep -c '^KNOWN-FINDING') known; $(echo "$out" | grep -E '^(VIOLATION|INCONCLUSIVE)' | head -2 | tr '\n' ' ' | cut -c1-200)"
  done
done
