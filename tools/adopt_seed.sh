#!/bin/bash
# tools/adopt_seed.sh <Cnn> <seed-id>  - take a sub-agent's output from /tmp/wt/out/<Cnn> into /verif/seeded/<seed-id>/ and confirm it
set -e
P=$1; ID=$2
cd "$(dirname "$0")/.."
mkdir -p seeded/$ID
cp /tmp/wt/out/$P/patch.diff /tmp/wt/out/$P/demo.py /tmp/wt/out/$P/meta.json seeded/$ID/
/venv/bin/python tools/seeded.py --only $ID --confirm
