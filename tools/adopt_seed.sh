#!/bin/bash
# tools/adopt_seed.sh <Cnn> <seed-id>  - take a sub-agent's output from /tmp/wt/out/<Cnn> into /verif/seeded/<seed-id>/ and confirm it
set -e
P=$1; ID=$2
cd "$(dirname "$0")/.."
mkdir -p seeded/$ID
SRC=${3:-/tmp/wt/out}; cp $SRC/$P/patch.diff $SRC/$P/demo.py $SRC/$P/meta.json seeded/$ID/
/venv/bin/python tools/seeded.py --only $ID --confirm
