#!/venv/bin/python
"""Regenerate seeded/README.md from the meta.json files."""
import json
import os

V = os.path.dirname(os.path.dirname(os.path.abspath(__file__)))
rows = []
for d in sorted(os.listdir(os.path.join(V, "seeded"))):
    p = os.path.join(V, "seeded", d, "meta.json")
    if not os.path.exists(p):
        continue
    m = json.load(open(p))
    v = m.get("verif", {})
    rows.append("| %s | %s | %s | %s | %s |" % (d, m["property"] if isinstance(m["property"], str) else ",".join(m["property"]),
                                            str(m.get("what_it_needs_to_manifest", "")).replace("\n", " ").replace("|", "/")[:260],
                                            v.get("caught_by", "?"), v.get("note", "").replace("|", "/")))
out = ["# Seeded breakages", "",
       "Each directory holds a change to fellowapp/prosemirror-py written by an independent sub-agent that was given only the text of one property and a",
       "scratch worktree (nothing from /verif): `patch.diff`, the agent's demonstration `demo.py` (exit 1 with the change, 0 without) and `meta.json`.",
       "Every one was confirmed here on a scratch copy (repository tests pass with it; demo fails with / passes without).  `tools/seeded.py` re-runs the",
       "registered checks against them; none is ever applied to /repo.", "",
       "| id | property | needs to manifest | caught by (oracle) | history |", "|---|---|---|---|---|"] + rows
open(os.path.join(V, "seeded", "README.md"), "w").write("\n".join(out) + "\n")
print(len(rows), "seeds")
