#!/venv/bin/python
"""Mutation campaign against the checks (development tool, not a registered check).

Generates small syntactic mutants of the library (comparison operators, and/or, dropped
`not`, +-1 removed, True/False, is None / is not None), keeps those that still pass the
repository's own test-suite (a mutant the tests kill says nothing about /verif), and runs the
quick checks that anchor in the mutated file against a scratch copy (VERIF_REPO).  A mutant
no check reports is a *survivor*: either equivalent / outside every property, or a blind
spot.  Survivors are written with their diff for triage.

  tools/mutcampaign.py --n 120 --seed 1 --out selftest/campaign/run1.jsonl [--files a.py,b.py]

Scratch copies live under $TMPDIR (default /tmp) and are removed after each mutant."""
import argparse
import ast
import json
import os
import random
import re
import shutil
import subprocess
import sys
import tempfile
import time
from concurrent.futures import ThreadPoolExecutor

V = os.path.dirname(os.path.dirname(os.path.abspath(__file__)))
REPO = os.environ.get("VERIF_REPO", "/repo")

CHECKS = {
    "model/fragment.py": ["C02", "C09", "C10", "C20", "C05"],
    "model/node.py": ["C02", "C09", "C07", "C05", "C13", "C20"],
    "model/replace.py": ["C02", "C01", "C04", "C18", "C19"],
    "model/resolvedpos.py": ["C09"],
    "model/mark.py": ["C14", "C13"],
    "model/schema.py": ["C07", "C14", "C15", "C06", "C05", "C13"],
    "model/content.py": ["C06", "C15", "C07", "C02", "C12"],
    "model/diff.py": ["C20"],
    "model/comparedeep.py": ["C20", "C14", "C05"],
    "model/from_dom.py": ["C19"],
    "model/to_dom.py": ["C19"],
    "transform/map.py": ["C08", "C03", "C17"],
    "transform/step.py": ["C01", "C05"],
    "transform/replace_step.py": ["C01", "C03", "C04", "C16", "C17", "C05"],
    "transform/mark_step.py": ["C01", "C03", "C13", "C16", "C17", "C04"],
    "transform/attr_step.py": ["C01", "C04", "C05", "C13"],
    "transform/doc_attr_step.py": ["C01", "C04", "C05", "C13"],
    "transform/replace.py": ["C11", "C18", "C12"],
    "transform/structure.py": ["C12", "C18", "C11"],
    "transform/transform.py": ["C13", "C11", "C12", "C04", "C18"],
}

CMP = {ast.Lt: ("<", "<="), ast.LtE: ("<=", "<"), ast.Gt: (">", ">="), ast.GtE: (">=", ">"), ast.Eq: ("==", "!="), ast.NotEq: ("!=", "=="),
       ast.Is: ("is", "is not"), ast.IsNot: ("is not", "is")}


def mutants_of(path, rel):
    src = open(path).read()
    lines = src.split("\n")
    tree = ast.parse(src)
    out = []

    def add(line, a, b, old, new, kind):
        seg = lines[line][a:b]
        if seg.count(old) != 1:
            return
        newline = lines[line][:a] + seg.replace(old, new, 1) + lines[line][b:]
        out.append({"file": rel, "line": line + 1, "kind": kind, "old": lines[line].strip(), "new": newline.strip(), "_edit": (line, newline)})

    for node in ast.walk(tree):
        if isinstance(node, ast.Compare) and len(node.ops) == 1 and type(node.ops[0]) in CMP:
            l, r = node.left, node.comparators[0]
            if l.end_lineno == r.lineno:
                o, n = CMP[type(node.ops[0])]
                add(l.end_lineno - 1, l.end_col_offset, r.col_offset, " %s " % o, " %s " % n, "cmp")
        elif isinstance(node, ast.BoolOp) and len(node.values) == 2:
            l, r = node.values
            if l.end_lineno == r.lineno:
                o, n = ("and", "or") if isinstance(node.op, ast.And) else ("or", "and")
                add(l.end_lineno - 1, l.end_col_offset, r.col_offset, " %s " % o, " %s " % n, "bool")
        elif isinstance(node, ast.UnaryOp) and isinstance(node.op, ast.Not) and node.lineno == node.operand.lineno:
            add(node.lineno - 1, node.col_offset, node.operand.col_offset, "not ", "", "not")
        elif isinstance(node, ast.BinOp) and isinstance(node.op, (ast.Add, ast.Sub)) and isinstance(node.right, ast.Constant) and node.right.value == 1 \
                and node.left.end_lineno == node.right.lineno == node.right.end_lineno:
            sym = "+" if isinstance(node.op, ast.Add) else "-"
            add(node.right.lineno - 1, node.left.end_col_offset, node.right.end_col_offset, " %s 1" % sym, "", "pm1")
        elif isinstance(node, ast.Constant) and isinstance(node.value, bool) and node.lineno == node.end_lineno:
            add(node.lineno - 1, node.col_offset, node.end_col_offset, str(node.value), str(not node.value), "bool-const")
    # skip type-checking / annotation-only noise
    return [m for m in out if "TYPE_CHECKING" not in m["old"] and not m["old"].startswith(("def ", "class ", "@"))]


def make_copy(m):
    d = tempfile.mkdtemp(prefix="mutc-")
    shutil.copytree(os.path.join(REPO, "prosemirror"), os.path.join(d, "prosemirror"))
    shutil.copytree(os.path.join(REPO, "tests"), os.path.join(d, "tests"))
    for f in ("pyproject.toml", "setup.cfg", "conftest.py"):
        if os.path.exists(os.path.join(REPO, f)):
            shutil.copy(os.path.join(REPO, f), d)
    p = os.path.join(d, "prosemirror", m["file"])
    lines = open(p).read().split("\n")
    lines[m["_edit"][0]] = m["_edit"][1]
    open(p, "w").write("\n".join(lines))
    return d


def tests_pass(d):
    try:
        r = subprocess.run(["/venv/bin/python", "-m", "pytest", "-q", "-x", "-p", "no:cacheprovider", "tests"], cwd=d, capture_output=True, text=True, timeout=300)
    except subprocess.TimeoutExpired:
        return False
    return r.returncode == 0


def prefilter(m):
    d = make_copy(m)
    try:
        compile(open(os.path.join(d, "prosemirror", m["file"])).read(), m["file"], "exec")
    except SyntaxError:
        shutil.rmtree(d, ignore_errors=True)
        return m, "syntax", None
    if not tests_pass(d):
        shutil.rmtree(d, ignore_errors=True)
        return m, "killed-by-tests", None
    return m, "passes-tests", d


def run_checks(m, d, seed):
    res = {}
    env = dict(os.environ, VERIF_REPO=d, VERIF_EVIDENCE_DIR=os.path.join(d, "ev"), VERIF_SEED=str(seed), VERIF_TIER="quick")
    for c in CHECKS[m["file"]]:
        t0 = time.time()
        try:
            r = subprocess.run([os.path.join(V, "check"), c], cwd=V, env=env, capture_output=True, text=True, timeout=600)
            rc = r.returncode
            line = next((x for x in r.stdout.split("\n") if x.strip().startswith("oracle=")), "")
        except subprocess.TimeoutExpired:
            rc, line = 2, "timeout"
        res[c] = {"rc": rc, "s": round(time.time() - t0, 1), "oracle": line.strip()[:160]}
        if rc == 1:
            return "caught", c, res
    if any(v["rc"] == 2 for v in res.values()):
        return "inconclusive", None, res
    return "survived", None, res


def main():
    ap = argparse.ArgumentParser()
    ap.add_argument("--n", type=int, default=60)
    ap.add_argument("--seed", type=int, default=1)
    ap.add_argument("--out", default="selftest/campaign/run.jsonl")
    ap.add_argument("--files", default="")
    ap.add_argument("--check-seed", type=int, default=0)
    a = ap.parse_args()
    files = [f for f in CHECKS if not a.files or f in a.files.split(",")]
    allm = []
    for rel in files:
        allm += mutants_of(os.path.join(REPO, "prosemirror", rel), rel)
    rnd = random.Random(a.seed)
    rnd.shuffle(allm)
    sample = allm[:a.n]
    print("%d mutants generated, %d sampled" % (len(allm), len(sample)), flush=True)
    out = os.path.join(V, a.out)
    os.makedirs(os.path.dirname(out), exist_ok=True)
    fh = open(out, "a")
    with ThreadPoolExecutor(8) as ex:
        pre = list(ex.map(prefilter, sample))
    tally = {}
    for m, st, d in pre:
        rec = {k: v for k, v in m.items() if not k.startswith("_")}
        try:
            if st != "passes-tests":
                rec["status"] = st
            else:
                status, by, res = run_checks(m, d, a.check_seed)
                rec.update(status=status, caught_by=by, checks=res)
        finally:
            if d:
                shutil.rmtree(d, ignore_errors=True)
        tally[rec["status"]] = tally.get(rec["status"], 0) + 1
        fh.write(json.dumps(rec) + "\n")
        fh.flush()
        print(rec["status"], rec["file"], rec["line"], rec["kind"], "|", rec["old"][:70], "->", rec["new"][:70], "|", rec.get("caught_by") or "", flush=True)
    print("TALLY", tally, flush=True)


if __name__ == "__main__":
    main()
