#!/venv/bin/python
"""MANIFEST.setup_cmd: nothing to build (pure Python, stdlib only); verify the interpreter
and that the library imports from /repo's working tree."""
import os
import sys

sys.path.insert(0, os.path.dirname(os.path.dirname(os.path.abspath(__file__))))
assert sys.version_info >= (3, 12), "needs CPython 3.12 (sys.monitoring)"
from vlib import env  # noqa: E402,F401

os.makedirs(os.path.join(env.VERIF, "evidence"), exist_ok=True)
print("setup ok: prosemirror from", env.REPO, "python", sys.version.split()[0])
