#!/venv/bin/python
"""Regenerate /verif/MANIFEST.json from the property modules that exist (one check per
vlib/props/cNN.py); every property without a module is listed under not_applicable."""
import importlib
import json
import os
import sys

V = os.path.dirname(os.path.dirname(os.path.abspath(__file__)))
sys.path.insert(0, V)
sys.dont_write_bytecode = True

props = [json.loads(l) for l in open(os.path.join(V, "properties.jsonl"))]
checks, na = [], []
for p in props:
    pid = p["id"]
    path = os.path.join(V, "vlib", "props", pid.lower() + ".py")
    if not os.path.exists(path):
        na.append({"property_id": pid, "reason": "no check registered yet: the monitor for this property is still being built (see DESIGN.md section 8); runtime monitoring does apply to it"})
        continue
    m = importlib.import_module("vlib.props." + pid.lower())
    checks.append({
        "property_id": pid,
        "quick_cmd": "./check %s --tier quick" % pid,
        "thorough_cmd": "./check %s --tier thorough" % pid,
        "evidence_file": "/verif/evidence/%s.json" % pid,
        "replay_cmd_template": "./check %s --replay {path}" % pid,
        "engine": "vlib",
        "level_claimed": {
            "category": getattr(m, "LEVEL", "exploration"),
            "text": getattr(m, "LEVEL_TEXT", "runtime monitoring: held on the executions observed (see evidence), nothing is proved"),
            "design_ref": "DESIGN.md section 3, " + pid,
        },
        "level_note": getattr(m, "LEVEL_NOTE", "trusted base: the reference model in vlib/flat.py, vlib/refschema.py, vlib/refmap.py and the generators' validity filter"),
        "technique": getattr(m, "TECHNIQUE", "runtime monitoring: boundary recording + reference-model oracle over generated workloads"),
    })
man = {
    "version": 1,
    "setup_cmd": "/venv/bin/python tools/setup_check.py",
    "hooks": {
        "guard": "FELLOWAPP_PROSEMIRROR_PY_VERIF",
        "enable": "no source hooks: monitors are attached from the harness after import (class/module attribute patching); the guard variable is set by vlib/env.py but the repository never reads it",
        "baseline_off_cmd": "cd /repo && env -u FELLOWAPP_PROSEMIRROR_PY_VERIF /venv/bin/python -m pytest -ra -q -p no:cacheprovider --timeout=900 --continue-on-collection-errors",
        "source_commits": [],
        "add_only": True,
    },
    "engines": [{
        "name": "vlib",
        "path": "/verif/vlib",
        "serves_properties": [c["property_id"] for c in checks],
        "kind_free_text": "runtime monitoring: generated hostile workloads against the real library imported from /repo's working tree, boundary recorders + reference-model oracles (flat token model, derivative-based content regexes, mapping rule), sys.monitoring LINE-budget watchdog for termination",
    }],
    "checks": checks,
    "not_applicable": na,
    "notes": "Exit 0 held / 1 violation / 2 inconclusive. Known findings: /verif/known_findings.json. Seeded breakages: /verif/seeded/. See DESIGN.md.",
}
json.dump(man, open(os.path.join(V, "MANIFEST.json"), "w"), indent=1)
print("checks:", [c["property_id"] for c in checks], "na:", len(na))
