#!/venv/bin/python
"""Regenerate /verif/MANIFEST.json from the property modules that exist (one check per
vlib/props/cNN.py); every property without a module is listed under not_applicable."""
import importlib
import json
import os
import sys

V = os.path.dirname(os.path.dirname(os.path.abspath(__file__)))
sys.path.insert(0, V)
sys.dont_write_bytecode = True

props = [json.loads(l) for l in open(os.path.join(V, "properties.jsonl"))]
TEXT = {
 "C01": ("online postcondition on every Step.apply (8 classes): result valid under an independent reference validator or reported failure; primitive steps with hostile but schema-valid payloads, via JSON, plus all steps the transform API emits and the repository's own tests", "runtime monitoring: contract monitor on Step.apply + reference validator (derivative-based content regexes)"),
 "C02": ("every slice / cut / replace observed is compared with the flat-token splice computed by the reference (tree equality incl. text normal form, size law, raise-exactly-when-invalid)", "runtime monitoring: boundary recording + flat-token reference model"),
 "C03": ("online postcondition on every successful Step.apply: map read through for_each agrees with its ranges, size delta, and every old token outside the ranges is found at the mapped position", "runtime monitoring: contract monitor + token-movement oracle"),
 "C04": ("histories of random transform operations: bookkeeping aligned after every (also rejected) operation, replay (direct and via JSON), undo by inverted steps, inverse-map law at every position; single-step undo under every schema", "runtime monitoring: history recording + offline replay/undo checker"),
 "C05": ("to_json -> json.dumps/loads -> from_json of nodes, fragments, slices, marks and all 8 step types: equality, identical JSON, plain data, no aliasing (identity + poisoning), same effect and map on other documents, registry names", "runtime monitoring: boundary recording + identity/aliasing oracle"),
 "C06": ("product of the live compiled automaton with Brzozowski derivatives of the generated expression tree decides acceptance for sequences of any length; exhaustive over all trees up to a size bound, random beyond; malformed expressions must be rejected", "runtime monitoring: quiescent-point walk of the compiled automaton vs reference automaton (product / bisimulation)"),
 "C07": ("validity predicates on valid and deliberately invalid nodes compared with the reference definition for all child ranges, replacement sub-ranges, node types and mark sets", "runtime monitoring: boundary recording + reference validator, both polarities"),
 "C08": ("all step maps with <= 3 ranges exhaustively (plain and inverted, every position, both sides) against the documented rule; mappings from random histories: fold, slice, copy, append*, invert, mirrors; rebasing constructions judged by token tracking", "runtime monitoring: exhaustive small-scope enumeration + reference mapping rule + token tracking"),
 "C09": ("every position and sampled pairs of generated documents: all ResolvedPos accessors, lookups, traversals and text extraction recomputed from an annotated plain tree in UTF-16 units, ancestors compared by identity", "runtime monitoring: boundary recording + annotated-tree reference"),
 "C10": ("live-set fingerprints (values and identity structure, to_json) of every object that crossed the API re-verified after each of 15-40 mixed operations; shared singletons; accumulators only grow; __setattr__ interposer names the writer", "runtime monitoring: invariant at quiescent points over a registry of live objects"),
 "C11": ("replace-family operations at arbitrary ranges with slices of every open depth: totality (exceptions, LINE budget) in the upstream-test schemas, validity and content preservation under every schema", "runtime monitoring: boundary recording + leaf-sequence oracle + LINE-budget watchdog"),
 "C12": ("whenever a structure helper approves, the edit is performed and must return a valid document; results in range; split/join/lift/wrap keep the leaf sequence", "runtime monitoring: approve-then-perform oracle"),
 "C13": ("mark / attribute / retype operations compared token by token with the documented effect computed by the reference mark algebra", "runtime monitoring: boundary recording + token-level effect oracle"),
 "C14": ("all 512 exclusion relations over 3 mark types x all reachable mark sets x 4 parent types exhaustively, random configurations beyond; every add/remove/lookup/filter compared with the reference algebra", "runtime monitoring: exhaustive small-scope BFS + reference mark algebra"),
 "C15": ("fill_before / find_wrapping / default_type / create_and_fill at every reachable match state: soundness on the returned nodes, completeness against BFS over the reference automaton / type graph", "runtime monitoring: product exploration + reference BFS"),
 "C16": ("ordered step pairs built for both adjacency branches: a non-None merge must apply, equal the two steps, and do so on further documents", "runtime monitoring: differential oracle (merged vs sequential)"),
 "C17": ("pairs of single steps from every high-level operation with token-separated touched ranges: rebased steps not dropped, both orders apply and converge", "runtime monitoring: differential oracle (two application orders)"),
 "C18": ("replace-family operations with both ends inside an isolating node: all tokens up to its open token and from its close token unchanged; lift_target / can_split / max_open never cross", "runtime monitoring: prefix/suffix token invariant + helper range checks"),
 "C19": ("random HTML under a LINE budget: returns a reference-valid document; context rules vs reference matcher; style rules; export escaping re-parsed by lxml; round trip on constructed whitespace-normal documents", "runtime monitoring: totality + validity oracle, reference context matcher, round-trip oracle"),
 "C20": ("(before, after) pairs of edits sharing nodes, rebuilt copies, point mutations: find_diff_start/end under a LINE budget vs longest common prefix/suffix of markup-carrying token lists", "runtime monitoring: LINE-budget watchdog + token prefix/suffix oracle"),
}
checks, na = [], []
for p in props:
    pid = p["id"]
    path = os.path.join(V, "vlib", "props", pid.lower() + ".py")
    if not os.path.exists(path):
        na.append({"property_id": pid, "reason": "no check registered yet: the monitor for this property is still being built (see DESIGN.md section 8); runtime monitoring does apply to it"})
        continue
    m = importlib.import_module("vlib.props." + pid.lower())
    checks.append({
        "property_id": pid,
        "quick_cmd": "./check %s --tier quick" % pid,
        "thorough_cmd": "./check %s --tier thorough" % pid,
        "evidence_file": "/verif/evidence/%s.json" % pid,
        "replay_cmd_template": "./check %s --replay {path}" % pid,
        "engine": "vlib",
        "level_claimed": {
            "category": getattr(m, "LEVEL", "exploration"),
            "text": "held on the executions observed, nothing is proved: " + TEXT[pid][0] + ". Exploration is the right level: the quantifier is over unbounded inputs/histories and the deciding step is an oracle per observed execution; the evidence file reports what was observed.",
            "design_ref": "DESIGN.md section 3, " + pid,
        },
        "level_note": "trusted base: the reference model (vlib/flat.py, vlib/refschema.py, vlib/refmap.py) and the generators' validity filters; assumptions and known findings are listed in the evidence file and in DESIGN.md sections 3b, 6b, 7; " + "; ".join(getattr(m, "ASSUMPTIONS", []))[:600],
        "technique": TEXT[pid][1],
    })
man = {
    "version": 1,
    "setup_cmd": "/venv/bin/python tools/setup_check.py",
    "hooks": {
        "guard": "FELLOWAPP_PROSEMIRROR_PY_VERIF",
        "enable": "no source hooks: monitors are attached from the harness after import (class/module attribute patching); the guard variable is set by vlib/env.py but the repository never reads it",
        "baseline_off_cmd": "cd /repo && env -u FELLOWAPP_PROSEMIRROR_PY_VERIF /venv/bin/python -m pytest -ra -q -p no:cacheprovider --timeout=900 --continue-on-collection-errors",
        "source_commits": [],
        "add_only": True,
    },
    "engines": [{
        "name": "vlib",
        "path": "/verif/vlib",
        "serves_properties": [c["property_id"] for c in checks],
        "kind_free_text": "runtime monitoring: generated hostile workloads against the real library imported from /repo's working tree, boundary recorders + reference-model oracles (flat token model, derivative-based content regexes, mapping rule), sys.monitoring LINE-budget watchdog for termination",
    }],
    "checks": checks,
    "not_applicable": na,
    "notes": "Exit 0 held / 1 violation / 2 inconclusive. Known findings: /verif/known_findings.json. Seeded breakages: /verif/seeded/. See DESIGN.md.",
}
json.dump(man, open(os.path.join(V, "MANIFEST.json"), "w"), indent=1)
print("checks:", [c["property_id"] for c in checks], "na:", len(na))
