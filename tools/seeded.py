#!/venv/bin/python
"""Run the registered checks against the seeded breakages kept under /verif/seeded/<id>/.

For each seeded/<id>/ (patch.diff, demo.py, meta.json): copy /repo's working tree to a scratch
directory outside /repo and /verif, apply the patch there, optionally confirm that the
repository's own tests still pass and that the demonstration fails with / passes without
the change, run the quick (or thorough) check of the property with VERIF_REPO=<copy>, and
delete the copy.  Nothing under /repo is touched.

usage: tools/seeded.py [--only id,id] [--confirm] [--tier quick|thorough] [--seeds 0,1]
"""
import argparse
import json
import os
import shutil
import subprocess
import sys
import tempfile

V = os.path.dirname(os.path.dirname(os.path.abspath(__file__)))
BASE = "/dev/shm" if os.path.isdir("/dev/shm") else tempfile.gettempdir()


def sh(cmd, cwd, env=None, timeout=3600):
    return subprocess.run(cmd, cwd=cwd, capture_output=True, text=True, env={**os.environ, **(env or {})}, timeout=timeout)


def main():
    ap = argparse.ArgumentParser()
    ap.add_argument("--only")
    ap.add_argument("--confirm", action="store_true")
    ap.add_argument("--tier", default="quick")
    ap.add_argument("--seeds", default="0")
    a = ap.parse_args()
    root = os.path.join(V, "seeded")
    ids = sorted(d for d in os.listdir(root) if os.path.isdir(os.path.join(root, d)))
    if a.only:
        ids = [i for i in ids if i in a.only.split(",")]
    rows = []
    for sid in ids:
        d = os.path.join(root, sid)
        meta = json.load(open(os.path.join(d, "meta.json")))
        props = meta["property"] if isinstance(meta["property"], list) else [meta["property"]]
        scratch = tempfile.mkdtemp(prefix="pm-seeded-", dir=BASE)
        try:
            dst = os.path.join(scratch, "repo")
            shutil.copytree("/repo", dst, ignore=shutil.ignore_patterns(".git", "__pycache__", "*.egg-info"))
            env = {"PYTHONPATH": dst, "PYTHONDONTWRITEBYTECODE": "1"}
            note = ""
            if a.confirm:
                r0 = sh(["/venv/bin/python", os.path.join(d, "demo.py")], dst, env, 600)
                note += " demo-without=%d" % r0.returncode
            r = sh(["patch", "-p1", "--no-backup-if-mismatch", "-i", os.path.join(d, "patch.diff")], dst)
            if r.returncode != 0:
                rows.append((sid, "PATCH DOES NOT APPLY: " + r.stdout[-200:]))
                print("%-34s %s" % rows[-1], flush=True)
                continue
            if a.confirm:
                r1 = sh(["/venv/bin/python", os.path.join(d, "demo.py")], dst, env, 600)
                rt = sh(["/venv/bin/python", "-m", "pytest", "-q", "-x", "-p", "no:cacheprovider", "tests"], dst, env, 1800)
                note += " demo-with=%d tests=%s" % (r1.returncode, "pass" if rt.returncode == 0 else "FAIL")
            for prop in props:
                for seed in a.seeds.split(","):
                    r = sh([os.path.join(V, "check"), prop, "--tier", a.tier, "--seed", seed], V,
                           {"VERIF_REPO": dst, "VERIF_EVIDENCE_DIR": scratch}, 7200)
                    caught = r.returncode == 1 and ("VIOLATION property=%s" % prop) in r.stdout
                    first = next((l.strip() for l in r.stdout.splitlines() if l.strip().startswith("oracle=")), "")
                    oos = (meta.get("verif") or {}).get("out_of_scope")
                    label = "caught" if caught else ("OUT-OF-SCOPE (exit %d; recorded as outside the property as stated, see meta.json)" % r.returncode) if oos else "MISSED (exit %d)" % r.returncode
                    rows.append(("%s/%s seed=%s" % (sid, prop, seed), label + note + "  " + first[:150]))
                    print("%-34s %s" % rows[-1], flush=True)
        finally:
            shutil.rmtree(scratch, ignore_errors=True)
    missed = [k for k, v in rows if not v.startswith(("caught", "OUT-OF-SCOPE"))]
    oos_n = len([k for k, v in rows if v.startswith("OUT-OF-SCOPE")])
    print("%d runs, %d not caught%s" % (len(rows), len(missed), (", %d out of scope" % oos_n) if oos_n else ""))
    return 1 if missed else 0


if __name__ == "__main__":
    sys.exit(main())
