#!/venv/bin/python
"""Writes selftest/mutations.json (kept as code so that old/new strings stay readable)."""
import json
import os

M = []


def mut(id, props, file, old, new, note="", expect="caught"):
    M.append({"id": id, "properties": props, "file": file, "old": old, "new": new, "note": note, "expect": expect})


R = "prosemirror/model/replace.py"
N = "prosemirror/model/node.py"
F = "prosemirror/model/fragment.py"
S = "prosemirror/model/schema.py"
C = "prosemirror/model/content.py"
MK = "prosemirror/model/mark.py"
RP = "prosemirror/model/resolvedpos.py"
D = "prosemirror/model/diff.py"
MAP = "prosemirror/transform/map.py"
RS = "prosemirror/transform/replace_step.py"
MS = "prosemirror/transform/mark_step.py"
U = "prosemirror/utils.py"

mut("c02-no-text-merge", ["C02"], R, "    if last >= 0 and pm_node.is_text(child) and child.same_markup(target[last]):", "    if False and last >= 0 and pm_node.is_text(child) and child.same_markup(target[last]):", "adjacent same-markup text not merged at the seam")
mut("c02-slice-open-end", ["C02"], N, "        return Slice(content, from__.depth - depth, to_.depth - depth)", "        return Slice(content, from__.depth - depth, from__.depth - depth)", "open_end taken from the wrong end")
mut("c02-replace-child-size", ["C02"], F, "        size = self.size + node.node_size - current.node_size\n", "        size = self.size\n", "stale size after replacing a child")
mut("c02-close-skips-empty", ["C02", "C01"], R, "    if not node.type.valid_content(content):\n        msg = f\"Invalid content for node {node.type.name}\"", "    if content.size and not node.type.valid_content(content):\n        msg = f\"Invalid content for node {node.type.name}\"", "emptied nodes are not validated")
mut("c01-insert-into-unchecked", ["C01"], R, "        None if at_start or at_end else child,", "        None,", "original defect: gap content never checked below the top level")
mut("c01-valid-content-no-marks", ["C01", "C02", "C07"], S, "        for i in range(content.child_count):\n            if not self.allows_marks(content.child(i).marks):\n                return False\n        return True\n\n    def allows_mark_type", "        return True\n\n    def allows_mark_type", "valid_content ignores child marks")
mut("c03-around-map-second-range", ["C03"], RS, "            self.slice.size - self.insert,\n        ])", "            self.slice.size,\n        ])", "replace-around map reports the whole slice size for the second range")
mut("c03-replace-map-size", ["C03"], RS, "        return StepMap([self.from_, self.to - self.from_, self.slice.size])", "        return StepMap([self.from_, self.to - self.from_, self.slice.content.size])", "open slices counted with their open tokens")
mut("c08-start-side", ["C08"], MAP, "                elif pos == start:\n                    side = -1", "                elif pos == start:\n                    side = assoc", "position at the start of a replaced range follows assoc")
mut("c08-mirror-parity", ["C08"], MAP, "                    return self.mirror[i + (-1 if i % 2 else 1)]", "                    return self.mirror[i + (1 if i % 2 else -1)]", "mirror lookup reads the wrong neighbour")
mut("c08-append-inverted-offset", ["C08"], MAP, "                (total_size - mirr - 1) if (mirr is not None and mirr > i) else None,", "                (total_size - mirr) if (mirr is not None and mirr > i) else None,", "mirror offsets off by one after inverted append")
mut("c08-recover-inverted", ["C08"], MAP, "        if not self.inverted:\n            for i in range(index):", "        if self.inverted:\n            for i in range(index):", "recover shifts for the wrong orientation")
mut("c08-slice-from", ["C08"], MAP, "        return Mapping(self.maps, self.mirror, from_, to)", "        return Mapping(self.maps, self.mirror, from_ or self.from_, to)", "harmless-looking default that only differs for nested slices")
mut("c08-del-across", ["C08"], MAP, "                    else (DEL_BEFORE if pos == end else DEL_ACROSS)", "                    else (DEL_BEFORE if pos >= end - 0 and pos == end else DEL_BEFORE)", "across flag lost")
mut("c09-shared-depth", ["C09"], RP, "            if self.start(depth) <= pos and self.end(depth) >= pos:", "            if self.start(depth) <= pos and self.end(depth) > pos:", "end position not counted as inside")
mut("c09-marks-inclusive", ["C09"], RP, "            if marks[i].type.spec.get(\"inclusive\") is False and (\n                not other or not marks[i].is_in_set(other.marks)\n            ):\n                marks = marks[i].remove_from_set(marks)\n                i -= 1\n            i += 1\n        return marks\n\n    def marks_across", "            if marks[i].type.spec.get(\"inclusive\") is False and (\n                not other\n            ):\n                marks = marks[i].remove_from_set(marks)\n                i -= 1\n            i += 1\n        return marks\n\n    def marks_across", "non-inclusive mark kept although the other side lacks it")
mut("c09-text-length-codepoints", ["C09", "C02"], U, "    return len(text.encode(\"utf-16-le\", \"surrogatepass\")) // 2", "    return len(text)", "code points instead of UTF-16 units")
mut("c09-index-after", ["C09"], RP, "            0 if depth == self.depth and not self.text_offset else 1", "            0 if depth == self.depth else 1", "index_after inside a text node")
mut("c09-block-range-equal", ["C09"], RP, "            self.parent.inline_content or (1 if self.pos == other.pos else 0)", "            self.parent.inline_content or 0", "empty range no longer steps out")
mut("c14-rank-ge", ["C14"], MK, "                if not placed and other.type.rank > self.type.rank:", "                if not placed and other.type.rank >= self.type.rank:", "same-rank marks inserted before instead of after")
mut("c14-mutual-exclusion-order", ["C14"], MK, "            if self.type.excludes(other.type):\n                if copy is None:\n                    copy = set[0:i]\n            elif other.type.excludes(self.type):\n                return set", "            if other.type.excludes(self.type):\n                return set\n            elif self.type.excludes(other.type):\n                if copy is None:\n                    copy = set[0:i]", "on mutual exclusion the old mark wins")
mut("c14-excludes-identity", ["C14"], S, "        return any(other.name == e.name for e in self.excluded)", "        return any(other is e for e in self.excluded) and other is not None", "equivalent for one schema - must NOT be caught (control)", expect="silent")
mut("c14-remove-type", ["C14"], S, "        return [item for item in set_ if item.type != self]", "        return [item for item in set_ if item.type != self or item.attrs]", "type removal keeps marks that carry attrs")
mut("c06-opt-mandatory", ["C06"], C, "            return [edge(from_), *compile(expr[\"expr\"], from_)]", "            return [*compile(expr[\"expr\"], from_)]", "? becomes mandatory")
mut("c06-range-max", ["C06"], C, "                for _i in range(expr[\"min\"], expr[\"max\"]):", "                for _i in range(expr[\"min\"], expr[\"max\"] - (1 if expr[\"min\"] == 0 and expr[\"max\"] > 2 else 0)):", "{0,3} compiled as {0,2}")
mut("c06-dead-end-attrs", ["C06"], C, "            if dead and not (node.is_text or node.has_required_attrs()):", "            if dead and not node.is_text:", "required-attribute nodes treated as generatable in the dead-end check")
mut("c06-open-range-shared", ["C06"], C, "                if cur == from_:\n", "                if False:\n", "original defect: {0,} loops on the shared node")
mut("c15-wrap-only-child", ["C15"], C, "                    and (not current[\"type\"] or match.next[i].next.valid_end)", "                    and True", "wrapper need not hold the next wrapper as its only child")
mut("c15-fill-to-end", ["C15"], C, "            if finished and (not to_end or finished.valid_end):", "            if finished:", "to_end ignored")
mut("c15-fill-generatable", ["C15"], C, "                if not (type.is_text or type.has_required_attrs()) and next not in seen:", "                if not type.is_text and next not in seen:", "nodes with required attrs used as filler")
mut("c15-wrap-cache-key", ["C15"], C, "            if entry.target.name == target.name:", "            if entry.target.is_inline == target.is_inline and entry.target.is_leaf == target.is_leaf:", "stale cache: answers for another target of the same kind")
mut("c15-default-type", ["C15"], C, "            if not (type.is_text or type.has_required_attrs()):\n                return type\n        return None", "            if not type.is_text:\n                return type\n        return None", "default type may need attributes")
mut("c07-can-replace-marks-range", ["C07"], N, "        for i in range(start, end):\n            if not self.type.allows_marks(replacement.child(i).marks):", "        for i in range(start + 1, end):\n            if not self.type.allows_marks(replacement.child(i).marks):", "first replacement child's marks unchecked")
mut("c07-check-no-mark-canon", ["C07"], N, "        if not Mark.same_set(copy, self.marks):", "        if len(copy) != len(self.marks):", "unsorted mark sets pass check()")
mut("c07-can-replace-with-end", ["C07"], N, "        return end.valid_end if end else False", "        return bool(end)", "can_replace_with ignores valid_end")
mut("c07-can-append-index", ["C07"], N, "            return self.can_replace(self.child_count, self.child_count, other.content)", "            return self.can_replace(self.child_count, self.child_count, other.content, 0, 1)", "only the first appended child is checked")
mut("c20-end-min-size", ["C20"], D, "                same, min_size = 0, min(len(units_a), len(units_b))", "                same, min_size = 0, min(len(units_a), len(units_b)) - 1", "whole shorter text never counted as common suffix")
mut("c20-start-exhausted", ["C20"], D, "            return None if a.child_count == b.child_count else pos", "            return None if a.child_count == b.child_count or i == 0 else pos", "empty vs non-empty fragments reported equal")
mut("c20-shared-no-advance", ["C20"], D, "            pos += child_a.node_size\n            i += 1\n            continue", "            pos += child_a.node_size\n            continue", "original defect: infinite loop on shared child")
mut("c20-end-identity-size", ["C20"], D, "        if child_a == child_b:\n            pos_a -= size\n            pos_b -= size\n            continue", "        if child_a == child_b or child_a.eq(child_b) and child_a.is_leaf:\n            pos_a -= size\n            pos_b -= size\n            continue", "control: equivalent shortcut - must NOT be caught", expect="silent")

T = "prosemirror/transform/transform.py"
AS = "prosemirror/transform/attr_step.py"
DAS = "prosemirror/transform/doc_attr_step.py"
mut("c10-append-inplace", ["C10"], F, "            self.content.copy(),\n            0,\n        )", "            self.content,\n            0,\n        )", "Fragment.append extends the receiver's child list in place")
mut("c10-replace-child-inplace", ["C10"], F, "        copy = self.content.copy()\n        size = self.size + node.node_size - current.node_size", "        copy = self.content\n        size = self.size + node.node_size - current.node_size", "replace_child writes into the shared list")
mut("c10-add-to-set-inplace", ["C10", "C14"], MK, "        if copy is None:\n            copy = set[:]\n        if not placed:", "        if copy is None:\n            copy = set\n        if not placed:", "appending a mark mutates the caller's set")
mut("c10-attrstep-shares-attrs", ["C10"], AS, "        attrs = {}\n        for name in node.attrs:\n            attrs[name] = node.attrs[name]\n", "        attrs = node.attrs\n", "AttrStep writes into the old node's attrs dict")
mut("c10-docattr-shares-attrs", ["C10"], DAS, "        attrs = {}\n        for name in doc.attrs:\n            attrs[name] = doc.attrs[name]\n", "        attrs = doc.attrs\n", "DocAttrStep writes into the old document's attrs dict")
mut("c10-set-from-sorts-inplace", ["C10", "C14"], MK, "        copy = marks[:]\n        return sorted(copy, key=lambda item: item.type.rank)", "        marks.sort(key=lambda item: item.type.rank)\n        return marks", "set_from sorts the caller's list")
mut("c10-mapping-copy-shares", ["C10", "C08"], MAP, "            self.maps[:],\n            (self.mirror[:] if self.mirror else None),", "            self.maps,\n            (self.mirror[:] if self.mirror else None),", "a copied Mapping shares its maps list")
mut("c10-stepmap-invert-shares-then-sorts", ["C10"], MAP, "        return StepMap(self.ranges, not self.inverted)", "        self.inverted = not self.inverted\n        return self", "invert flips the receiver")

json.dump(M, open(os.path.join(os.path.dirname(os.path.abspath(__file__)), "mutations.json"), "w"), indent=1)
print(len(M), "mutations")
