#!/venv/bin/python
"""Writes selftest/mutations.json (kept as code so that old/new strings stay readable)."""
import json
import os

M = []


def mut(id, props, file, old, new, note="", expect="caught"):
    M.append({"id": id, "properties": props, "file": file, "old": old, "new": new, "note": note, "expect": expect})


R = "prosemirror/model/replace.py"
N = "prosemirror/model/node.py"
F = "prosemirror/model/fragment.py"
S = "prosemirror/model/schema.py"
C = "prosemirror/model/content.py"
MK = "prosemirror/model/mark.py"
RP = "prosemirror/model/resolvedpos.py"
D = "prosemirror/model/diff.py"
MAP = "prosemirror/transform/map.py"
RS = "prosemirror/transform/replace_step.py"
MS = "prosemirror/transform/mark_step.py"
U = "prosemirror/utils.py"

mut("c02-no-text-merge", ["C02"], R, "    if last >= 0 and pm_node.is_text(child) and child.same_markup(target[last]):", "    if False and last >= 0 and pm_node.is_text(child) and child.same_markup(target[last]):", "adjacent same-markup text not merged at the seam")
mut("c02-slice-open-end", ["C02"], N, "        return Slice(content, from__.depth - depth, to_.depth - depth)", "        return Slice(content, from__.depth - depth, from__.depth - depth)", "open_end taken from the wrong end")
mut("c02-replace-child-size", ["C02"], F, "        size = self.size + node.node_size - current.node_size\n", "        size = self.size\n", "stale size after replacing a child")
mut("c02-close-skips-empty", ["C02", "C01"], R, "    if not node.type.valid_content(content):\n        msg = f\"Invalid content for node {node.type.name}\"", "    if content.size and not node.type.valid_content(content):\n        msg = f\"Invalid content for node {node.type.name}\"", "emptied nodes are not validated")
mut("c01-insert-into-unchecked", ["C01"], R, "        None if at_start or at_end else child,", "        None,", "original defect: gap content never checked below the top level")
mut("c01-valid-content-no-marks", ["C01", "C02", "C07"], S, "        for i in range(content.child_count):\n            if not self.allows_marks(content.child(i).marks):\n                return False\n        return True\n\n    def allows_mark_type", "        return True\n\n    def allows_mark_type", "valid_content ignores child marks")
mut("c03-around-map-second-range", ["C03"], RS, "            self.slice.size - self.insert,\n        ])", "            self.slice.size,\n        ])", "replace-around map reports the whole slice size for the second range")
mut("c03-replace-map-size", ["C03"], RS, "        return StepMap([self.from_, self.to - self.from_, self.slice.size])", "        return StepMap([self.from_, self.to - self.from_, self.slice.content.size])", "open slices counted with their open tokens")
mut("c08-start-side", ["C08"], MAP, "                elif pos == start:\n                    side = -1", "                elif pos == start:\n                    side = assoc", "position at the start of a replaced range follows assoc")
mut("c08-mirror-parity", ["C08"], MAP, "                    return self.mirror[i + (-1 if i % 2 else 1)]", "                    return self.mirror[i + (1 if i % 2 else -1)]", "mirror lookup reads the wrong neighbour")
mut("c08-append-inverted-offset", ["C08"], MAP, "                (total_size - mirr - 1) if (mirr is not None and mirr > i) else None,", "                (total_size - mirr) if (mirr is not None and mirr > i) else None,", "mirror offsets off by one after inverted append")
mut("c08-recover-inverted", ["C08"], MAP, "        if not self.inverted:\n            for i in range(index):", "        if self.inverted:\n            for i in range(index):", "recover shifts for the wrong orientation")
mut("c08-slice-from", ["C08"], MAP, "        return Mapping(self.maps, self.mirror, from_, to)", "        return Mapping(self.maps, self.mirror, from_ or self.from_, to)", "harmless-looking default that only differs for nested slices")
mut("c08-del-across", ["C08"], MAP, "                    else (DEL_BEFORE if pos == end else DEL_ACROSS)", "                    else (DEL_BEFORE if pos >= end - 0 and pos == end else DEL_BEFORE)", "across flag lost")
mut("c09-shared-depth", ["C09"], RP, "            if self.start(depth) <= pos and self.end(depth) >= pos:", "            if self.start(depth) <= pos and self.end(depth) > pos:", "end position not counted as inside")
mut("c09-marks-inclusive", ["C09"], RP, "            if marks[i].type.spec.get(\"inclusive\") is False and (\n                not other or not marks[i].is_in_set(other.marks)\n            ):\n                marks = marks[i].remove_from_set(marks)\n                i -= 1\n            i += 1\n        return marks\n\n    def marks_across", "            if marks[i].type.spec.get(\"inclusive\") is False and (\n                not other\n            ):\n                marks = marks[i].remove_from_set(marks)\n                i -= 1\n            i += 1\n        return marks\n\n    def marks_across", "non-inclusive mark kept although the other side lacks it")
mut("c09-text-length-codepoints", ["C09", "C02"], U, "    return len(text.encode(\"utf-16-le\", \"surrogatepass\")) // 2", "    return len(text)", "code points instead of UTF-16 units")
mut("c09-index-after", ["C09"], RP, "            0 if depth == self.depth and not self.text_offset else 1", "            0 if depth == self.depth else 1", "index_after inside a text node")
mut("c09-block-range-equal", ["C09"], RP, "            self.parent.inline_content or (1 if self.pos == other.pos else 0)", "            self.parent.inline_content or 0", "empty range no longer steps out")
mut("c14-rank-ge", ["C14"], MK, "                if not placed and other.type.rank > self.type.rank:", "                if not placed and other.type.rank >= self.type.rank:", "same-rank marks inserted before instead of after")
mut("c14-mutual-exclusion-order", ["C14"], MK, "            if self.type.excludes(other.type):\n                if copy is None:\n                    copy = set[0:i]\n            elif other.type.excludes(self.type):\n                return set", "            if other.type.excludes(self.type):\n                return set\n            elif self.type.excludes(other.type):\n                if copy is None:\n                    copy = set[0:i]", "on mutual exclusion the old mark wins")
mut("c14-excludes-identity", ["C14"], S, "        return any(other.name == e.name for e in self.excluded)", "        return any(other is e for e in self.excluded) and other is not None", "equivalent for one schema - must NOT be caught (control)", expect="silent")
mut("c14-remove-type", ["C14"], S, "        return [item for item in set_ if item.type != self]", "        return [item for item in set_ if item.type != self or item.attrs]", "type removal keeps marks that carry attrs")
mut("c06-opt-mandatory", ["C06"], C, "            return [edge(from_), *compile(expr[\"expr\"], from_)]", "            return [*compile(expr[\"expr\"], from_)]", "? becomes mandatory")
mut("c06-range-max", ["C06"], C, "                for _i in range(expr[\"min\"], expr[\"max\"]):", "                for _i in range(expr[\"min\"], expr[\"max\"] - (1 if expr[\"min\"] == 0 and expr[\"max\"] > 2 else 0)):", "{0,3} compiled as {0,2}")
mut("c06-dead-end-attrs", ["C06"], C, "            if dead and not (node.is_text or node.has_required_attrs()):", "            if dead and not node.is_text:", "required-attribute nodes treated as generatable in the dead-end check")
mut("c06-open-range-shared", ["C06"], C, "                if cur == from_:\n", "                if False:\n", "original defect: {0,} loops on the shared node")
mut("c15-wrap-only-child", ["C15"], C, "                    and (not current[\"type\"] or match.next[i].next.valid_end)", "                    and True", "wrapper need not hold the next wrapper as its only child")
mut("c15-fill-to-end", ["C15"], C, "            if finished and (not to_end or finished.valid_end):", "            if finished:", "to_end ignored")
mut("c15-fill-generatable", ["C15"], C, "                if not (type.is_text or type.has_required_attrs()) and next not in seen:", "                if not type.is_text and next not in seen:", "nodes with required attrs used as filler")
mut("c15-wrap-cache-key", ["C15"], C, "            if entry.target.name == target.name:", "            if entry.target.is_inline == target.is_inline and entry.target.is_leaf == target.is_leaf:", "stale cache: answers for another target of the same kind")
mut("c15-default-type", ["C15"], C, "            if not (type.is_text or type.has_required_attrs()):\n                return type\n        return None", "            if not type.is_text:\n                return type\n        return None", "default type may need attributes")
mut("c07-can-replace-marks-range", ["C07"], N, "        for i in range(start, end):\n            if not self.type.allows_marks(replacement.child(i).marks):", "        for i in range(start + 1, end):\n            if not self.type.allows_marks(replacement.child(i).marks):", "first replacement child's marks unchecked")
mut("c07-check-no-mark-canon", ["C07"], N, "        if not Mark.same_set(copy, self.marks):", "        if len(copy) != len(self.marks):", "unsorted mark sets pass check()")
mut("c07-can-replace-with-end", ["C07"], N, "        return end.valid_end if end else False", "        return bool(end)", "can_replace_with ignores valid_end")
mut("c07-can-append-index", ["C07"], N, "            return self.can_replace(self.child_count, self.child_count, other.content)", "            return self.can_replace(self.child_count, self.child_count, other.content, 0, 1)", "only the first appended child is checked")
mut("c20-end-min-size", ["C20"], D, "                same, min_size = 0, min(len(units_a), len(units_b))", "                same, min_size = 0, min(len(units_a), len(units_b)) - 1", "whole shorter text never counted as common suffix")
mut("c20-start-exhausted", ["C20"], D, "            return None if a.child_count == b.child_count else pos", "            return None if a.child_count == b.child_count or i == 0 else pos", "empty vs non-empty fragments reported equal")
mut("c20-shared-no-advance", ["C20"], D, "            pos += child_a.node_size\n            i += 1\n            continue", "            pos += child_a.node_size\n            continue", "original defect: infinite loop on shared child")
mut("c20-end-identity-size", ["C20"], D, "        if child_a == child_b:\n            pos_a -= size\n            pos_b -= size\n            continue", "        if child_a == child_b or child_a.eq(child_b) and child_a.is_leaf:\n            pos_a -= size\n            pos_b -= size\n            continue", "control: equivalent shortcut - must NOT be caught", expect="silent")

T = "prosemirror/transform/transform.py"
AS = "prosemirror/transform/attr_step.py"
DAS = "prosemirror/transform/doc_attr_step.py"
mut("c10-append-inplace", ["C10"], F, "            self.content.copy(),\n            0,\n        )", "            self.content,\n            0,\n        )", "Fragment.append extends the receiver's child list in place")
mut("c10-replace-child-inplace", ["C10"], F, "        copy = self.content.copy()\n        size = self.size + node.node_size - current.node_size", "        copy = self.content\n        size = self.size + node.node_size - current.node_size", "replace_child writes into the shared list")
mut("c10-add-to-set-inplace", ["C10", "C14"], MK, "        if copy is None:\n            copy = set[:]\n        if not placed:", "        if copy is None:\n            copy = set\n        if not placed:", "appending a mark mutates the caller's set")
mut("c10-attrstep-shares-attrs", ["C10"], AS, "        attrs = {}\n        for name in node.attrs:\n            attrs[name] = node.attrs[name]\n", "        attrs = node.attrs\n", "AttrStep writes into the old node's attrs dict")
mut("c10-docattr-shares-attrs", ["C10"], DAS, "        attrs = {}\n        for name in doc.attrs:\n            attrs[name] = doc.attrs[name]\n", "        attrs = doc.attrs\n", "DocAttrStep writes into the old document's attrs dict")
mut("c10-set-from-sorts-inplace", ["C10", "C14"], MK, "        copy = marks[:]\n        return sorted(copy, key=lambda item: item.type.rank)", "        marks.sort(key=lambda item: item.type.rank)\n        return marks", "set_from sorts the caller's list")
mut("c10-mapping-copy-shares", ["C10", "C08"], MAP, "            self.maps[:],\n            (self.mirror[:] if self.mirror else None),", "            self.maps,\n            (self.mirror[:] if self.mirror else None),", "a copied Mapping shares its maps list")
mut("c10-stepmap-invert-shares-then-sorts", ["C10"], MAP, "        return StepMap(self.ranges, not self.inverted)", "        self.inverted = not self.inverted\n        return self", "invert flips the receiver")

ST = "prosemirror/transform/structure.py"
TD = "prosemirror/model/to_dom.py"
FDM = "prosemirror/model/from_dom.py"
RPL = "prosemirror/transform/replace.py"
mut("c04-replace-invert-content-size", ["C04"], RS, "            self.from_ + self.slice.size,\n            doc.slice(self.from_, self.to),", "            self.from_ + self.slice.content.size,\n            doc.slice(self.from_, self.to),", "inverse of an open-slice replace covers too much")
mut("c04-around-invert-insert", ["C04"], RS, "            self.gap_from - self.from_,\n            self.structure,\n        )", "            self.gap_from - self.from_ if self.gap_to > self.gap_from + 1 else self.insert,\n            self.structure,\n        )", "inverse insert offset wrong for one-token gaps")
mut("c04-remove-node-mark-invert", ["C04"], MS, "        if not node or not self.mark.is_in_set(node.marks):\n            return self\n        return AddNodeMarkStep(self.pos, self.mark)", "        if not node:\n            return self\n        return AddNodeMarkStep(self.pos, self.mark)", "undoing a no-op removal adds the mark")
mut("c04-docattr-invert", ["C04"], DAS, "        return DocAttrStep(self.attr, doc.attrs[self.attr])", "        return DocAttrStep(self.attr, doc.attrs.get(self.attr) or self.value)", "falsy old values are not restored")
mut("c05-node-attrs-shallow", ["C05"], N, "                \"attrs\": copy.deepcopy(self.attrs),", "                \"attrs\": dict(self.attrs),", "nested attribute containers alias the live node")
mut("c05-around-structure-dropped", ["C05"], RS, "            json_data[\"insert\"],\n            bool(json_data.get(\"structure\")),", "            json_data[\"insert\"],\n            False,", "structure flag lost when decoding replace-around steps")
mut("c05-slice-open-end-json", ["C05", "C04"], R, "        if self.open_end > 0:\n            json = {", "        if self.open_end > 1:\n            json = {", "openEnd 1 not serialised")
mut("c11-fits-trivially-start", ["C11"], RPL, "    if not slice.open_start and not slice.open_end and from__.start() == to_.start():", "    if not slice.open_start and not slice.open_end and from__.depth == to_.depth:", "trivial fit assumed for same-depth ends in different parents")
mut("c12-insert-point-after", ["C12"], ST, "            if pos_.node(d).can_replace_with(index, index, node_type):\n                return pos_.after(d + 1)", "            if pos_.node(d).can_replace_with(index, index, node_type):\n                return pos_.after(d + 1) + (1 if d == 0 and pos_.depth > 2 else 0)", "insert point one too far for deep positions")
mut("c12-can-split-rest", ["C12"], ST, "        ) or not after.type.valid_content(rest):\n            return False", "        ):\n            return False", "can_split does not validate the split-off remainder at outer levels")
mut("c13-remove-mark-type-first-only", ["C13"], T, "                    to_remove.append(found_mark)\n                    set_ = found_mark.remove_from_set(set_)", "                    to_remove.append(found_mark)\n                    break", "removing a mark type removes only one mark of the type per node")
mut("c13-set-node-markup-marks", ["C13"], T, "        new_node = type.create(attrs, None, marks or node.marks)", "        new_node = type.create(attrs, None, marks)", "set_node_markup drops the node's marks when none are given")
mut("c13-add-mark-end", ["C13"], T, "                end = min(pos + node.node_size, to)\n                new_set = mark.add_to_set(marks)", "                end = pos + node.node_size\n                new_set = mark.add_to_set(marks)", "mark added to the end of the last text node instead of the range end")
mut("c16-mark-merge-disjoint", ["C16"], MS, "            isinstance(other, AddMarkStep)\n            and other.mark.eq(self.mark)\n            and self.from_ <= other.to\n            and self.to >= other.from_", "            isinstance(other, AddMarkStep)\n            and other.mark.eq(self.mark)\n            and self.from_ <= other.to", "disjoint add-mark steps merged into their hull")
mut("c16-merge-before-order", ["C16"], RS, "                    other.slice.content.append(self.slice.content),\n                    other.slice.open_start,", "                    self.slice.content.append(other.slice.content),\n                    other.slice.open_start,", "prepending merge concatenates in the wrong order")
mut("c17-replace-map-assoc", ["C17"], RS, "        from_ = mapping.map_result(self.from_, 1)\n        to = mapping.map_result(self.to, -1)\n        if from_.deleted and to.deleted:\n            return None\n        return ReplaceStep(", "        from_ = mapping.map_result(self.from_, 1)\n        to = mapping.map_result(self.to, 1)\n        if from_.deleted and to.deleted:\n            return None\n        return ReplaceStep(", "end of a replace step sticks to content inserted after it - only visible for touching ranges, outside C17's quantifier (control)", expect="silent")
mut("c17-attr-map-deleted", ["C17"], AS, "        return None if pos.deleted_after else AttrStep(pos.pos, self.attr, self.value)", "        return None if pos.deleted_after or pos.deleted_before else AttrStep(pos.pos, self.attr, self.value)", "attr step dropped when content right before its node is deleted - only for adjacent ranges, outside C17's quantifier (control)", expect="silent")
mut("c18-lift-target-isolating", ["C18"], ST, "            depth == 0\n            or node.type.spec.get(\"isolating\")\n            or not can_cut(node, index, end_index)", "            depth == 0\n            or not can_cut(node, index, end_index)", "lift target may cross an isolating node")
mut("c18-can-split-isolating-outer", ["C18"], ST, "        if node.type.spec.get(\"isolating\"):\n            return False\n        rest = node.content.cut_by_index(index, node.child_count)", "        rest = node.content.cut_by_index(index, node.child_count)", "deep split may split an isolating ancestor")
mut("c19-text-not-escaped", ["C19"], TD, "            return html.escape(structure), None", "            return structure, None", "text nodes serialised without escaping")
mut("c19-trailing-space-kept", ["C19"], FDM, "                    if len(last.text) == len(m[0]):\n                        self.content.pop()", "                    if len(last.text) == len(m[0]) and len(self.content) > 1:\n                        self.content.pop()", "whitespace-only last text node kept when it is the only child - a parsing detail no clause of C19 speaks about (control)", expect="silent")
mut("c19-normalize-list-prev", ["C19"], FDM, "        elif name == \"li\":\n            prev_item = child\n        elif name:\n            prev_item = None", "        elif name == \"li\":\n            prev_item = child", "non-li children do not reset the previous item - result still valid, no clause of C19 affected (control)", expect="silent")
mut("c09-nodes-between-ge", ["C09"], F, "                end > from_\n                and f(child, node_start + pos, parent, i) is not False", "                end >= from_\n                and f(child, node_start + pos, parent, i) is not False", "node ending exactly at `from` is visited")
mut("c09-node-at-text", ["C09"], N, "            if offset == pos or node.is_text:\n                return node\n            pos -= offset + 1", "            if offset == pos:\n                return node\n            if node.is_text:\n                return None\n            pos -= offset + 1", "node_at inside a text node returns nothing")

TR = "prosemirror/transform/transform.py"
mut("c18-fitter-opens-isolating-slice-node", ["C18"], RPL, "            if node.type.spec.get(\"isolating\") and open_end <= d:\n                start_depth = d\n                break\n", "", "slice-side isolating guard of the fitter removed (was a silent control until round-5 seed C18-fitter-isolating-open-end-wrong-node showed the target node can be split through it; now judged by the slice-isolating-node-opened oracle)")
mut("c19-finish-no-fill", ["C19"], FDM, "        if not open_end and self.match is not None:\n            content = content.append(", "        if False and not open_end and self.match is not None:\n            content = content.append(", "parser does not fill required content when closing a node")
mut("c19-ws-collapse-keeps-tabs", ["C19"], FDM, "                value = re.sub(r\"[ \\t\\r\\n\\u000c]+\", \" \", value)", "                value = re.sub(r\"[ \\r\\n\\u000c]+\", \" \", value)", "tabs are not collapsed (whitespace detail, round trip of normal documents unaffected: control)", expect="silent")
mut("c12-wrap-insert-count", ["C12"], TR, "                Slice(content, 0, 0),\n                len(wrappers),\n                True,", "                Slice(content, 0, 0),\n                len(wrappers) - (1 if len(wrappers) > 2 else 0),\n                True,", "three-level wraps put the content one level too high")
mut("c12-find-wrapping-outside-outer", ["C12"], ST, "    outer = around[0] if len(around) and around[0] else type", "    outer = type", "outer wrapper not used for the fit test - only makes find_wrapping refuse more in the catalogue schemas, refusals are always allowed by C12 (control)", expect="silent")
mut("c12-can-join-index", ["C12"], ST, "        pos_.parent.can_replace(index, index + 1)\n        if joinable(pos_.node_before, pos_.node_after)", "        pos_.parent.can_replace(index, index)\n        if joinable(pos_.node_before, pos_.node_after)", "can_join does not test the removal of the joined node - equivalent in the catalogue schemas (no parent there needs a minimum number >1 of joinable children) (control)", expect="silent")
mut("c09-pos-at-index", ["C09"], RP, "        for i in range(index):\n            pos += node.child(i).node_size\n        return pos", "        for i in range(index):\n            pos += node.child(i).node_size if not node.child(i).is_text else len(node.child(i).text)\n        return pos", "pos_at_index counts code points for text children")
mut("c09-after-size", ["C09"], RP, "            else cast(int, self.path[depth * 3 - 1])\n            + cast(\"Node\", self.path[depth * 3]).node_size", "            else cast(int, self.path[depth * 3 - 1])\n            + cast(\"Node\", self.path[depth * 3]).content.size\n            + 2", "control: equivalent for non-leaf ancestors", expect="silent")
mut("c06-range-comma-max", ["C06"], C, "        max_ = parse_num(stream) if stream.next() != \"}\" else -1", "        max_ = parse_num(stream) if stream.next() != \"}\" else min_ + 1", "{n,} read as {n,n+1}")
mut("c06-group-order", ["C15"], C, "    for _, type in types.items():\n        if name in type.groups:\n            result.append(type)", "    for _, type in types.items():\n        if name in type.groups:\n            result.insert(0, type)", "group members resolved in reverse schema order (default type / first filler changes)")
mut("c03-add-step-skips-empty-map", ["C04"], TR, "        self.mapping.append_map(step.get_map())\n        self.doc = doc", "        if step.get_map().ranges:\n            self.mapping.append_map(step.get_map())\n        self.doc = doc", "mark/attr steps do not get a map entry: steps and maps misaligned")
mut("c05-compute-attrs-default-falsy", ["C13"], S, "        if given is None:\n            attr = attrs[name]", "        if not given:\n            attr = attrs[name]", "falsy attribute values replaced by the default")
mut("c01-from-replace-narrow", ["C03"], "prosemirror/transform/step.py", "        except ReplaceError as e:\n            return cls.fail(e.args[0])", "        except ReplaceError as e:\n            return cls.fail(e.args[0]) if e.args[0].startswith(\"In\") else cls.ok(doc)", "a refused replace is reported as success with the unchanged document")

json.dump(M, open(os.path.join(os.path.dirname(os.path.abspath(__file__)), "mutations.json"), "w"), indent=1)
print(len(M), "mutations")
