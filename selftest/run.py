#!/venv/bin/python
"""Mutation self-test (development tool, not a registered check).

For every mutation in selftest/mutations.json: copy /repo's working tree to a scratch
directory outside /repo and /verif, apply the textual replacement, optionally run the
repository's own test suite on the copy (a mutation should survive it), run the property's
quick check with VERIF_REPO=<copy>, expect exit 1, delete the copy.

usage: selftest/run.py [--only ID[,ID..]] [--prop Cnn] [--tests] [--seed N]
"""
import argparse
import json
import os
import shutil
import subprocess
import sys
import tempfile

V = os.path.dirname(os.path.dirname(os.path.abspath(__file__)))
BASE = "/dev/shm" if os.path.isdir("/dev/shm") else tempfile.gettempdir()


def main():
    ap = argparse.ArgumentParser()
    ap.add_argument("--only")
    ap.add_argument("--prop")
    ap.add_argument("--tests", action="store_true")
    ap.add_argument("--seed", default="0")
    a = ap.parse_args()
    muts = json.load(open(os.path.join(V, "selftest", "mutations.json")))
    if a.only:
        ids = set(a.only.split(","))
        muts = [m for m in muts if m["id"] in ids]
    if a.prop:
        muts = [m for m in muts if a.prop in m["properties"]]
    results = []
    for m in muts:
        d = tempfile.mkdtemp(prefix="pm-mut-", dir=BASE)
        try:
            dst = os.path.join(d, "repo")
            shutil.copytree("/repo", dst, ignore=shutil.ignore_patterns(".git", "__pycache__", "*.egg-info"))
            p = os.path.join(dst, m["file"])
            s = open(p).read()
            if s.count(m["old"]) != 1:
                results.append((m["id"], "PATCH-DOES-NOT-APPLY (%d matches)" % s.count(m["old"])))
                continue
            open(p, "w").write(s.replace(m["old"], m["new"]))
            tests = ""
            if a.tests:
                r = subprocess.run(["/venv/bin/python", "-m", "pytest", "-q", "-x", "-p", "no:cacheprovider", "tests"], cwd=dst,
                                   capture_output=True, text=True, env={**os.environ, "PYTHONPATH": dst, "PYTHONDONTWRITEBYTECODE": "1"})
                tests = " tests:%s" % ("pass" if r.returncode == 0 else "FAIL")
            for prop in m["properties"]:
                if a.prop and prop != a.prop:
                    continue
                r = subprocess.run([os.path.join(V, "check"), prop, "--tier", "quick", "--seed", a.seed], cwd=V, capture_output=True, text=True,
                                   env={**os.environ, "VERIF_REPO": dst, "VERIF_EVIDENCE_DIR": d})
                caught = r.returncode == 1 and "VIOLATION property=%s" % prop in r.stdout
                first = next((l for l in r.stdout.splitlines() if l.strip().startswith("oracle=")), "")
                if m.get("expect") == "silent":
                    verdict = "ok-silent (control)" if r.returncode == 0 else "FALSE-ALARM (exit %d)" % r.returncode
                else:
                    verdict = "caught" if caught else "MISSED (exit %d)" % r.returncode
                results.append((m["id"] + "/" + prop, verdict + tests + " " + first.strip()[:140]))
        finally:
            shutil.rmtree(d, ignore_errors=True)
    for k, v in results:
        print("%-40s %s" % (k, v))
    missed = [k for k, v in results if not (v.startswith("caught") or v.startswith("ok-silent"))]
    print("%d mutations run, %d not caught" % (len(results), len(missed)))
    return 1 if missed else 0


if __name__ == "__main__":
    sys.exit(main())
