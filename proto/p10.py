import faulthandler; faulthandler.dump_traceback_later(30, exit=True)
import sys
USEFIX = len(sys.argv)>2
if USEFIX: import fixes
import prosemirror.transform.replace as R
# instrument fit loop: count iterations
orig_find=R.Fitter.find_fittable
class Loop(Exception): pass
def ff(self):
    self_cnt=getattr(self,'_n',0)+1
    object.__setattr__(self,'_n',self_cnt) if False else None
    return orig_find(self)
# Fitter has __slots__, so keep counter externally
counts={}
def ff(self):
    c=counts.get(id(self),0)+1; counts[id(self)]=c
    if c>500:
        raise Loop(f"fit loop >500: unplaced={self.unplaced} frontier={[f.type.name for f in self.frontier]} placed={self.placed}")
    return orig_find(self)
R.Fitter.find_fittable=ff
import random, json
from collections import Counter
from prosemirror.model import Schema, Fragment, Slice
from prosemirror.transform import Transform
from prosemirror.test_builder import test_schema as S0
rnd=random.Random(int(sys.argv[1]))
nodes={**S0.spec["nodes"],
  "iso":{"group":"block","content":"block+","isolating":True},
  "table":{"group":"block","content":"row+","isolating":True},
  "row":{"content":"cell+"},
  "cell":{"content":"block+","isolating":True}}
S=Schema({"nodes":nodes,"marks":S0.spec["marks"]})
def rinl(): return Fragment.from_([S.text(rnd.choice(["a","bc","d e"])) for _ in range(rnd.randint(0,2))])
def rb(d=0):
    r=rnd.random()
    if d>2: r=min(r,.4)
    if r<.4: return S.node("paragraph",None,rinl())
    if r<.5: return S.node("blockquote",None,[rb(d+1)])
    if r<.65: return S.node("iso",None,[rb(d+1) for _ in range(rnd.randint(1,2))])
    if r<.8: return S.node("bullet_list",None,[S.node("list_item",None,[S.node("paragraph",None,rinl())]+([rb(d+2)] if rnd.random()<.3 else [])) for _ in range(rnd.randint(1,2))])
    return S.node("table",None,[S.node("row",None,[S.node("cell",None,[rb(d+2) for _ in range(rnd.randint(1,2))]) for _ in range(rnd.randint(1,2))]) for _ in range(rnd.randint(1,2))])
def rdoc(): return S.node("doc",None,[rb() for _ in range(rnd.randint(1,3))])
cnt=Counter(); shown=0
for it in range(300):
    d=rdoc(); n=d.content.size
    for _ in range(20):
        f_,t_=sorted([rnd.randint(0,n),rnd.randint(0,n)])
        e=rdoc(); x,y=sorted([rnd.randint(0,e.content.size),rnd.randint(0,e.content.size)]); sl=e.slice(x,y)
        counts.clear()
        try: Transform(d).replace(f_,t_,sl); cnt["ok"]+=1
        except Loop as L:
            cnt["LOOP"]+=1
            if shown<3: shown+=1; print("LOOP", d, f_, t_, sl, "\n   ", L)
        except Exception as x_: cnt[type(x_).__name__]+=1
print(cnt)
