from proto import *
cnt=Counter(); ex={}
for it in range(300):
    d=rdoc(); e=rdoc(); n=d.content.size; T=toks(d.content)
    assert len(T)==n
    f2,t2=sorted([rnd.randint(0,e.content.size),rnd.randint(0,e.content.size)])
    try: sl=e.slice(f2,t2)
    except Exception as x: cnt["slice-exc:"+type(x).__name__]+=1; continue
    ts=toks(sl.content); inner=ts[sl.open_start:len(ts)-sl.open_end]
    if inner!=toks(e.content)[f2:t2]: cnt["SLICE-MISMATCH"]+=1; ex.setdefault("SLICE",(str(e),f2,t2))
    for _ in range(30):
        f,t=sorted([rnd.randint(0,n),rnd.randint(0,n)])
        try:
            r=d.replace(f,t,sl)
        except ReplaceError as x: cnt["ReplaceError"]+=1; continue
        except Exception as x: cnt["EXC:"+type(x).__name__]+=1; ex.setdefault("EXC:"+type(x).__name__,(str(d),f,t,str(sl))); continue
        exp=T[:f]+inner+T[t:]
        got=toks(r.content)
        if got!=exp:
            cnt["SPLICE-MISMATCH"]+=1; ex.setdefault("SPLICE",(str(d),f,t,str(sl),str(r)))
        elif not valid(r): cnt["INVALID"]+=1; ex.setdefault("INVALID",(str(d),f,t,str(sl),str(r)))
        else: cnt["ok"]+=1
print(cnt)
for k,v in ex.items(): print(k,v)
