from prosemirror.test_builder import out, test_schema as s
from prosemirror.transform import *
doc,p,ul,li,blockquote = (out[k] for k in "doc p ul li blockquote".split())
for d2 in [doc(ul(li(p("a")))), doc(blockquote(blockquote(p("a")))), doc(ul(li(p("a"), ul(li(p("b"))))))]:
  for pos in range(d2.content.size+1):
    for dr in (-1,1):
        try:
            jp = join_point(d2, pos, dr)
        except Exception as e:
            print("jp exc", pos, dr, type(e).__name__, e); continue
        if jp is not None:
            try: Transform(d2).join(jp); r="ok"
            except Exception as e: r=f"{type(e).__name__}: {e}"
            if r!="ok": print(d2, "join_point", pos, dr, "->", jp, "can_join", can_join(d2,jp), "join:", r)
