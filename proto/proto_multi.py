import faulthandler; faulthandler.dump_traceback_later(580, exit=True)
import sys, random, json
import fixes
import prosemirror.transform.replace as R
import inspect
src=inspect.getsource(R.covered_depths).replace('"isolation"','"isolating"'); exec(src, R.__dict__)
import prosemirror.transform.transform as TT, prosemirror.transform as TP
TT.covered_depths=R.covered_depths; TP.covered_depths=R.covered_depths
orig_find=R.Fitter.find_fittable; counts={}
class Loop(Exception): pass
def ff(self):
    c=counts.get(id(self),0)+1; counts[id(self)]=c
    if c>300: raise Loop("fit loop")
    return orig_find(self)
R.Fitter.find_fittable=ff
from collections import Counter
from gdoc import schemas, Gen
from prosemirror.model import Fragment, Slice
from prosemirror.transform import *
from prosemirror.transform.structure import NodeTypeWithAttrs
rnd=random.Random(int(sys.argv[1])); WHICH=sys.argv[2]
def mk(m): return (m.type.name, json.dumps(m.attrs, sort_keys=True))
def toks(frag):
    r=[]
    for ch in frag.content:
        mu=(ch.type.name, json.dumps(ch.attrs, sort_keys=True), tuple(mk(m) for m in ch.marks))
        if ch.is_text:
            for u in ch.text: r.append(("T",u,mu[2]))
        elif ch.is_leaf: r.append(("L",)+mu)
        else: r.append(("O",)+mu); r.extend(toks(ch.content)); r.append(("C",))
    return r
def leafseq(t): return [x for x in t if x[0] in "TL"]
def valid(d):
    try: d.check(); return True
    except Exception: return False
cnt=Counter(); ex={}
def note(k,v): cnt[k]+=1; ex.setdefault(k,v)
TOT=["basic","list","strict","title","iso","table","topmarks"]
def rmark(S): 
    mt=rnd.choice(list(S.marks.values())); return mt.create({k:"u" for k,v in mt.attrs.items() if not v.has_default} or None)
def rslice(g):
    e=g.doc(); x,y=sorted([rnd.randint(0,e.content.size),rnd.randint(0,e.content.size)]); return e.slice(x,y)
def rstep(S,g,d):
    n=d.content.size
    for _ in range(20):
        f,t=sorted([rnd.randint(0,n),rnd.randint(0,n)])
        tr=Transform(d); k=rnd.choice(["replace","delete","delete_range","replace_range","add_mark","remove_mark","split","lift","wrap","join"])
        try:
            if k=="replace": tr.replace(f,t,rslice(g))
            elif k=="replace_range": tr.replace_range(f,t,rslice(g))
            elif k=="delete": tr.delete(f,t)
            elif k=="delete_range": tr.delete_range(f,t)
            elif k=="add_mark": tr.add_mark(f,t,rmark(S))
            elif k=="remove_mark": tr.remove_mark(f,t,rmark(S))
            elif k=="split":
                dp=rnd.randint(1,2)
                if can_split(d,f,dp): tr.split(f,dp)
            elif k=="join":
                if can_join(d,f): tr.join(f)
            elif k=="lift":
                r=d.resolve(f).block_range(d.resolve(t)); tg=lift_target(r) if r else None
                if tg is not None: tr.lift(r,tg)
            elif k=="wrap":
                r=d.resolve(f).block_range(d.resolve(t))
                if r:
                    ty=rnd.choice([x for x in S.nodes.values() if not x.is_leaf and not x.is_text and not x.has_required_attrs()])
                    w=find_wrapping(r,ty)
                    if w: tr.wrap(r,w)
        except Exception: continue
        if tr.steps: return k,tr
    return None
def c17():
    for name in TOT:
        S=schemas()[name]; g=Gen(S,rnd)
        for it in range(150):
            d=g.doc()
            for _ in range(10):
                A=rstep(S,g,d); B=rstep(S,g,d)
                if not A or not B: continue
                a,da=A[1].steps[0],(A[1].docs[1] if len(A[1].docs)>1 else A[1].doc); b,db=B[1].steps[0],(B[1].docs[1] if len(B[1].docs)>1 else B[1].doc)
                def hull(s):
                    m=s.get_map().ranges
                    if m: return (min(m[i] for i in range(0,len(m),3)), max(m[i]+m[i+1] for i in range(0,len(m),3)))
                    return (s.pos,s.pos+1) if hasattr(s,"pos") else (s.from_,s.to)
                ha,hb=hull(a),hull(b)
                if not (ha[1]<hb[0] or hb[1]<ha[0]): cnt[name+":overlap"]+=1; continue
                key=f"{name}:{type(a).__name__}/{type(b).__name__}"
                a2=a.map(b.get_map()); b2=b.map(a.get_map())
                if a2 is None or b2 is None: note("DROPPED:"+key,(str(d),a.to_json(),b.to_json())); continue
                r1=b2.apply(da); r2=a2.apply(db)
                if r1.failed or r2.failed: note("FAILED:"+key,(str(d),a.to_json(),b.to_json(),r1.failed,r2.failed)); continue
                if not r1.doc.eq(r2.doc): note("DIVERGE:"+key,(str(d),a.to_json(),b.to_json())); continue
                cnt[name+":ok"]+=1
def c04():
    for name in TOT:
        S=schemas()[name]; g=Gen(S,rnd)
        for it in range(200):
            d=g.doc(); tr=Transform(d)
            for _ in range(rnd.randint(1,6)):
                r=rstep(S,g,tr.doc)
                if r:
                    for s_ in r[1].steps: tr.step(s_)
            cur=tr.doc; bad=False
            for i in range(len(tr.steps)-1,-1,-1):
                s_=tr.steps[i]
                try: inv=s_.invert(tr.docs[i]); rr=inv.apply(cur)
                except Exception as x: note(f"{name}:UNDOEXC:{type(s_).__name__}:{type(x).__name__}",(str(tr.docs[i]),s_.to_json())); bad=True; break
                if rr.failed: note(f"{name}:UNDOFAIL:{type(s_).__name__}",(str(tr.docs[i]),s_.to_json(),inv.to_json(),rr.failed)); bad=True; break
                if not rr.doc.eq(tr.docs[i]): note(f"{name}:UNDODIFF:{type(s_).__name__}",(str(tr.docs[i]),s_.to_json(),inv.to_json(),str(rr.doc))); bad=True; break
                cur=rr.doc
            if not bad: cnt[name+":ok"]+=1
def c12():
    for name in TOT:
        S=schemas()[name]; g=Gen(S,rnd); types=list(S.nodes.values())
        def perform(tag,d,fn,leaf_same=True):
            tr=Transform(d)
            try: fn(tr)
            except Exception as x: note(f"{name}:{tag}:EDITFAIL:{type(x).__name__}",(str(d),str(x)[:80])); return
            if not valid(tr.doc): note(f"{name}:{tag}:INVALID",(str(d),str(tr.doc))); return
            if leaf_same and leafseq(toks(d.content))!=leafseq(toks(tr.doc.content)): note(f"{name}:{tag}:LEAFCHG",(str(d),str(tr.doc))); return
            cnt[f"{name}:{tag}:ok"]+=1
        for it in range(40):
            d=g.doc(); n=d.content.size
            for pos in range(n+1):
                for depth in (1,2):
                    try: ok=can_split(d,pos,depth)
                    except Exception as x: note(f"{name}:can_split:EXC:{type(x).__name__}",(str(d),pos,depth)); continue
                    if ok: perform("split",d,lambda tr: tr.split(pos,depth))
                try: ok=can_join(d,pos)
                except Exception as x: note(f"{name}:can_join:EXC:{type(x).__name__}",(str(d),pos)); ok=False
                if ok: perform("join",d,lambda tr: tr.join(pos))
                for dr in (-1,1):
                    try: jp=join_point(d,pos,dr)
                    except Exception as x: note(f"{name}:join_point:EXC:{type(x).__name__}",(str(d),pos,dr)); continue
                    if jp is not None: perform("joinpt",d,lambda tr: tr.join(jp))
                ty=rnd.choice(types)
                try: ip=insert_point(d,pos,ty)
                except Exception as x: note(f"{name}:insert_point:EXC:{type(x).__name__}",(str(d),pos,ty.name)); ip=None
                if ip is not None and not ty.is_text:
                    node=ty.create_and_fill(g.attrs(ty))
                    perform("insert_point",d,lambda tr: tr.step(ReplaceStep(ip,ip,Slice(Fragment.from_(node),0,0))),False)
                sl=rslice(g)
                try: dp=drop_point(d,pos,sl)
                except Exception as x: note(f"{name}:drop_point:EXC:{type(x).__name__}",(str(d),pos,str(sl))); dp=None
                if dp is not None: perform("drop_point",d,lambda tr: tr.replace(dp,dp,sl),False)
            for _ in range(30):
                f,t=sorted([rnd.randint(0,n),rnd.randint(0,n)])
                r=d.resolve(f).block_range(d.resolve(t))
                if not r: continue
                try: tg=lift_target(r)
                except Exception as x: note(f"{name}:lift_target:EXC:{type(x).__name__}",(str(d),f,t)); tg=None
                if tg is not None: perform("lift",d,lambda tr: tr.lift(r,tg))
                ty=rnd.choice(types)
                try: w=find_wrapping(r,ty,g.attrs(ty))
                except Exception as x: note(f"{name}:find_wrapping:EXC:{type(x).__name__}",(str(d),f,t,ty.name)); continue
                if w is not None: perform("wrap",d,lambda tr: tr.wrap(r,w))
{"c17":c17,"c04":c04,"c12":c12}[WHICH]()
for k,v in sorted(cnt.items()): print(k,v)
print("----")
for k,v in ex.items(): print(k,str(v)[:600])
