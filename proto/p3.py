import traceback
from prosemirror.test_builder import out, test_schema as s
from prosemirror.transform import *
doc,p,ul,li = (out[k] for k in "doc p ul li".split())
d = doc(ul(li(p("a")), li(p("b"), ul(li(p("c"))))), p("d"))
try:
    Transform(d).delete(0, 11)
except AssertionError:
    traceback.print_exc()
