import sys, traceback
from prosemirror.test_builder import out, test_schema as s
from prosemirror.model import Fragment, Slice, Mark, Schema
from prosemirror.transform import *
from prosemirror.model.from_dom import from_html
doc,p,em,strong,ul,li,blockquote,pre,h1,br,img,ol,hr,a = (out[k] for k in "doc p em strong ul li blockquote pre h1 br img ol hr a".split())

def t(name, f):
    try:
        r = f()
        print(name, "->", r)
    except BaseException as e:
        print(name, "EXC", type(e).__name__, e)

d = doc(p("a", strong("b")))
t("marks at start", lambda: [m.type.name for m in d.resolve(1).marks()])
t("maybe_child(-1)", lambda: d.maybe_child(-1))
d2 = doc(p("x😀y"))
t("size", lambda: d2.content.size)
t("text_between astral", lambda: repr(d2.text_between(1, 4)))
t("cut mid-surrogate", lambda: d2.cut(1, 3))
t("slice mid-surr", lambda: d2.slice(2,3))
# diff identical
d3 = doc(p("a"), p("b"))
tr = Transform(d3).insert(5, s.text("c"))
import signal
def alarm(*a): raise TimeoutError("hang")
signal.signal(signal.SIGALRM, alarm)
def diffstart():
    signal.alarm(2)
    try: return d3.content.find_diff_start(tr.doc.content)
    finally: signal.alarm(0)
t("diff_start shared", diffstart)
t("diff_end astral", lambda: doc(p("😀😀a")).content.find_diff_end(doc(p("😀b😀a")).content))
t("diff_start astral", lambda: doc(p("😀😀a")).content.find_diff_start(doc(p("😀b😀a")).content))
# StepMap
m = StepMap([2,0,4])
t("touches", lambda: m.touches(2, m.map_result(2,1).recover or 0))
t("touches empty", lambda: StepMap([]).touches(0,0))
out_=[]
StepMap([0,1,3, 5,2,0]).for_each(lambda a,b,c,d: out_.append((a,b,c,d)))
print("for_each", out_)
mp = Mapping([StepMap([0,0,1])])
t("append_mapping", lambda: Mapping().append_mapping(mp))
# mark set
sch = Schema({"nodes":{"doc":{"content":"text*"},"text":{}}, "marks":{"a":{},"b":{},"c":{"excludes":"a"}}})
A,B,C = sch.mark("a"),sch.mark("b"),sch.mark("c")
t("add_to_set excl first", lambda: [m.type.name for m in C.add_to_set([A,B])])
sch2 = Schema({"nodes":{"doc":{"content":"par*"},"par":{"content":"text*","marks":"b"},"text":{}}, "marks":{"a":{},"b":{},"c":{}}})
par=sch2.nodes["par"]
t("allowed_marks", lambda: [m.type.name for m in par.allowed_marks([sch2.mark("a"),sch2.mark("b")])])
t("allowed_marks2", lambda: [m.type.name for m in par.allowed_marks([sch2.mark("a"),sch2.mark("c")])])
# html
t("empty ul", lambda: from_html(s, "<ul></ul>"))
t("img no src", lambda: from_html(s, "<p><img></p>"))
t("a no href", lambda: from_html(s, "<p><a>x</a></p>"))
t("ws between", lambda: from_html(s, "<p><em>a</em> <strong>b</strong></p>"))
t("style", lambda: from_html(s, '<p><span style="font-weight: bold">a</span></p>'))
t("style2", lambda: from_html(s, '<p><span style="color: red">a</span></p>'))
t("pre strong", lambda: from_html(s, '<pre><strong>a</strong></pre>'))
t("comment", lambda: from_html(s, '<p>a<!-- c -->b</p>'))
from prosemirror.model import DOMSerializer
ser = DOMSerializer.from_schema(s)
t("ol start", lambda: str(ser.serialize_fragment(doc(ol({"order":3}, li(p("a")))).content)))
t("content expr a{", lambda: Schema({"nodes":{"doc":{"content":"text{"},"text":{}}}))
t("content expr (", lambda: Schema({"nodes":{"doc":{"content":"text ("},"text":{}}}))
t("content expr |", lambda: Schema({"nodes":{"doc":{"content":"text |"},"text":{}}}))
t("content expr 2a", lambda: Schema({"nodes":{"doc":{"content":"text{2a}"},"text":{}}}))
