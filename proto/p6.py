import sys, time
from prosemirror.test_builder import out, test_schema as s
from prosemirror.transform import Transform
from prosemirror.model import diff
doc,p = out["doc"], out["p"]
class Budget(Exception): pass
mon = sys.monitoring
TOOL = 4
mon.use_tool_id(TOOL, "verif")
codes = {diff.find_diff_start.__code__, diff.find_diff_end.__code__}
count = 0; limit = 5000
def on_line(code, line):
    global count
    if code not in codes:
        return mon.DISABLE
    count += 1
    if count > limit:
        raise Budget(f"{code.co_name}:{line} after {count} lines")
mon.register_callback(TOOL, mon.events.LINE, on_line)
for c in codes:
    mon.set_local_events(TOOL, c, mon.events.LINE)
d3 = doc(p("a"), p("b"))
tr = Transform(d3).insert(5, s.text("c"))
t=time.time()
try:
    print(d3.content.find_diff_start(tr.doc.content))
except Budget as e:
    print("budget:", e, time.time()-t)
count=0
print(d3.content.find_diff_end(tr.doc.content), count)
