from proto import *
from prosemirror.transform.structure import NodeTypeWithAttrs
cnt=Counter(); ex={}
def hull(step):
    m=step.get_map().ranges
    if m:
        return (min(m[i] for i in range(0,len(m),3)), max(m[i]+m[i+1] for i in range(0,len(m),3)))
    if hasattr(step,"pos"): return (step.pos, step.pos+1)
    return (step.from_, step.to)
def rstep(d):
    n=d.content.size
    for _ in range(20):
        f,t=sorted([rnd.randint(0,n),rnd.randint(0,n)])
        tr=Transform(d); k=rnd.choice(["replace","delete","delete_range","add_mark","remove_mark","split","lift","wrap","insert","join"])
        try:
            if k=="replace":
                e=rdoc(); a,b=sorted([rnd.randint(0,e.content.size),rnd.randint(0,e.content.size)]); tr.replace(f,t,e.slice(a,b))
            elif k=="delete": tr.delete(f,t)
            elif k=="delete_range": tr.delete_range(f,t)
            elif k=="add_mark": tr.add_mark(f,t,rnd.choice(MARKS))
            elif k=="remove_mark": tr.remove_mark(f,t,rnd.choice(MARKS))
            elif k=="split":
                if can_split(d,f,1): tr.split(f)
            elif k=="join":
                if can_join(d,f): tr.join(f)
            elif k=="lift":
                r=d.resolve(f).block_range(d.resolve(t)); 
                if r:
                    tg=lift_target(r)
                    if tg is not None: tr.lift(r,tg)
            elif k=="wrap":
                r=d.resolve(f).block_range(d.resolve(t))
                if r:
                    w=find_wrapping(r,S.nodes[rnd.choice(["blockquote","bullet_list","ordered_list"])])
                    if w: tr.wrap(r,w)
            elif k=="insert": tr.insert(f, rblock(2))
        except Exception: continue
        if len(tr.steps)>=1: return k, tr.steps[0], tr.docs[1] if len(tr.docs)>1 else tr.doc
    return None
for it in range(400):
    d=S.node("doc",None,[rblock() for _ in range(rnd.randint(3,5))])
    for _ in range(15):
        A=rstep(d); B=rstep(d)
        if not A or not B: continue
        ka,a,da=A; kb,b,db=B
        ha,hb=hull(a),hull(b)
        if not (ha[1] < hb[0] or hb[1] < ha[0]): cnt["overlap"]+=1; continue
        key=f"{type(a).__name__}/{type(b).__name__}"
        a2=a.map(b.get_map()); b2=b.map(a.get_map())
        if a2 is None or b2 is None: cnt["DROPPED:"+key]+=1; ex.setdefault("DROPPED:"+key,(str(d),a.to_json(),b.to_json())); continue
        r1=b2.apply(da); r2=a2.apply(db)
        if r1.failed or r2.failed: cnt["FAILED:"+key]+=1; ex.setdefault("FAILED:"+key,(str(d),a.to_json(),b.to_json(),r1.failed,r2.failed)); continue
        if not r1.doc.eq(r2.doc): cnt["DIVERGE:"+key]+=1; ex.setdefault("DIVERGE:"+key,(str(d),a.to_json(),b.to_json(),str(r1.doc),str(r2.doc))); continue
        cnt["ok"]+=1
print(cnt)
for k,v in ex.items(): print(k,str(v)[:1200])
