import random, json, sys, traceback
from collections import Counter
from prosemirror.test_builder import out, test_schema as S
from prosemirror.model import Fragment, Slice, Mark, Schema, ReplaceError
from prosemirror.transform import *

def mk(m): return (m.type.name, json.dumps(m.attrs, sort_keys=True))
def toks(frag):
    r=[]
    for ch in frag.content:
        mu=(ch.type.name, json.dumps(ch.attrs, sort_keys=True), tuple(mk(m) for m in ch.marks))
        if ch.is_text:
            b=ch.text.encode("utf-16-le")
            for i in range(0,len(b),2): r.append(("T", b[i:i+2], mu[2]))
        elif ch.is_leaf: r.append(("L",)+mu)
        else:
            r.append(("O",)+mu); r.extend(toks(ch.content)); r.append(("C",))
    return r
def leafseq(t): return [x for x in t if x[0] in "TL"]
def valid(d):
    try: d.check(); return True
    except Exception: return False

rnd = random.Random(int(sys.argv[1]) if len(sys.argv)>1 else 0)
MARKS=[S.mark("em"),S.mark("strong"),S.mark("code"),S.mark("link",{"href":"x"})]
def rtext():
    s="".join(rnd.choice("abc ") for _ in range(rnd.randint(1,4)))
    ms=[m for m in MARKS if rnd.random()<0.25]
    return S.text(s, Mark.set_from(ms) if ms else None)
def rinline(n=3):
    out_=[]
    for _ in range(rnd.randint(0,n)):
        r=rnd.random()
        if r<0.7: out_.append(rtext())
        elif r<0.85: out_.append(S.node("hard_break"))
        else: out_.append(S.node("image",{"src":"i.png"}))
    return Fragment.from_(out_)
def rblock(d=0):
    r=rnd.random()
    if d>2: r=min(r,0.55)
    if r<0.35: return S.node("paragraph",None,rinline())
    if r<0.45: return S.node("heading",{"level":rnd.randint(1,3)},rinline())
    if r<0.5: return S.node("code_block",None,S.text("co\nde") if rnd.random()<.7 else None)
    if r<0.55: return S.node("horizontal_rule")
    if r<0.7: return S.node("blockquote",None,[rblock(d+1) for _ in range(rnd.randint(1,2))])
    lt = "bullet_list" if rnd.random()<.5 else "ordered_list"
    return S.node(lt,None,[S.node("list_item",None,[S.node("paragraph",None,rinline(2))]+[rblock(d+2) for _ in range(rnd.randint(0,1))]) for _ in range(rnd.randint(1,2))])
def rdoc(): return S.node("doc",None,[rblock() for _ in range(rnd.randint(1,3))])
