from proto import *
cnt=Counter(); ex={}
def subseq(a,b):
    it=iter(b); return all(any(x==y for y in it) for x in a)
def text(ls): return [x for x in ls if x[0]=="T"]
def chk_map(old,step,new,tag):
    m=step.get_map(); To=toks(old.content); Tn=toks(new.content)
    rs=[]; r=m.ranges
    for i in range(0,len(r),3): rs.append((r[i],r[i]+r[i+1],r[i+2]))
    if len(Tn)-len(To)!=sum(c-(b-a) for a,b,c in rs): cnt[tag+":SIZE"]+=1; ex.setdefault(tag+":SIZE",(str(old),step.to_json()))
    full = isinstance(step,(ReplaceStep,ReplaceAroundStep))
    for i,tk in enumerate(To):
        if any(a<=i<b for a,b,c in rs): continue
        j=m.map(i,1)
        ok = j<len(Tn) and (Tn[j]==tk if full else Tn[j][:2]==tk[:2] or (tk[0]!="T" and Tn[j][0]==tk[0]))
        if not ok: cnt[tag+":MAPTOK"]+=1; ex.setdefault(tag+":MAPTOK",(str(old),step.to_json(),i,j)); break
for it in range(150):
    d=rdoc(); e=rdoc(); n=d.content.size; T=toks(d.content)
    f2,t2=sorted([rnd.randint(0,e.content.size),rnd.randint(0,e.content.size)])
    sl=e.slice(f2,t2); st=text(leafseq(toks(sl.content)))
    for _ in range(20):
        f,t=sorted([rnd.randint(0,n),rnd.randint(0,n)])
        for op in ("replace","replace_range","delete","delete_range"):
            tr=Transform(d)
            try:
                if op.startswith("delete"): getattr(tr,op)(f,t); ins=[]
                else: getattr(tr,op)(f,t,sl); ins=st
            except Exception as x:
                k=op+":EXC:"+type(x).__name__+":"+str(x)[:40]; cnt[k]+=1; ex.setdefault(k,(str(d),f,t,str(sl))); continue
            if not valid(tr.doc): cnt[op+":INVALID"]+=1; ex.setdefault(op+":INVALID",(str(d),f,t,str(sl),str(tr.doc))); continue
            P=leafseq(T[:f]); Sx=leafseq(T[t:]); N=leafseq(toks(tr.doc.content))
            if N[:len(P)]!=P or (Sx and N[-len(Sx):]!=Sx) or len(P)+len(Sx)>len(N):
                cnt[op+":SURROUND"]+=1; ex.setdefault(op+":SURROUND",(str(d),f,t,str(sl),str(tr.doc))); continue
            mid=text(N[len(P):len(N)-len(Sx)])
            if not subseq(mid,ins): cnt[op+":MIDDLE"]+=1; ex.setdefault(op+":MIDDLE",(str(d),f,t,str(sl),str(tr.doc))); continue
            cnt[op+":ok"]+=1
            for i,s_ in enumerate(tr.steps):
                chk_map(tr.docs[i], s_, tr.docs[i+1] if i+1<len(tr.docs) else tr.doc, type(s_).__name__)
print(cnt)
for k,v in ex.items(): print(k,v)
