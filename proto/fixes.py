# in-process simulation of the trivial fixes, to see what remains
from prosemirror.model import Fragment, Mark
from prosemirror.model.schema import NodeType
_mc=Fragment.maybe_child
def maybe_child(self,index):
    if index<0: return None
    return _mc(self,index)
Fragment.maybe_child=maybe_child
def add_to_set(self, set):
    copy=None; placed=False
    for i in range(len(set)):
        other=set[i]
        if self.eq(other): return set
        if self.type.excludes(other.type):
            if copy is None: copy=set[0:i]
        elif other.type.excludes(self.type): return set
        else:
            if not placed and other.type.rank>self.type.rank:
                if copy is None: copy=set[0:i]
                copy.append(self); placed=True
            if copy is not None: copy.append(other)
    if copy is None: copy=set[:]
    if not placed: copy.append(self)
    return copy
Mark.add_to_set=add_to_set
def allowed_marks(self, marks):
    if self.mark_set is None: return marks
    copy=None
    for i,mark in enumerate(marks):
        if not self.allows_mark_type(mark.type):
            if copy is None: copy=marks[0:i]
        elif copy is not None: copy.append(mark)
    if copy is None: return marks
    return copy if len(copy) else Mark.none
NodeType.allowed_marks=allowed_marks
import prosemirror.transform.replace as R
def open_frontier_node(self, type_, attrs=None, content=None):
    top=self.frontier[self.depth]
    top.match=top.match.match_type(type_)
    self.placed=R.add_to_fragment(self.placed,self.depth,Fragment.from_(type_.create(attrs,content)))
    self.frontier.append(R._FrontierItem(type_,type_.content_match))
R.Fitter.open_frontier_node=open_frontier_node
# defect 28: `(wrap := match.find_wrapping(...))` truthiness -> infinite loop in Fitter.fit
import inspect, textwrap
_src=textwrap.dedent(inspect.getsource(R.Fitter.find_fittable)).replace("and (wrap := match.find_wrapping(first.type))","and (wrap := match.find_wrapping(first.type)) is not None")
_ns={}; exec(_src, R.__dict__, _ns); R.Fitter.find_fittable=_ns["find_fittable"]
_src=textwrap.dedent(inspect.getsource(R.Fitter.place_nodes)).replace("if wrap:","if wrap is not None:")
_ns={}; exec(_src, R.__dict__, _ns); R.Fitter.place_nodes=_ns["place_nodes"]
