import fixes
from proto import *
cnt=Counter(); shown=0
for it in range(600):
    d=rdoc(); n=d.content.size
    for pos in range(n+1):
        e=rdoc(); a,b=sorted([rnd.randint(0,e.content.size),rnd.randint(0,e.content.size)]); sl=e.slice(a,b)
        if rnd.random()<.5:
            sl=Slice(Fragment.from_([rblock(1) for _ in range(rnd.randint(1,2))]) if rnd.random()<.5 else rinline(),0,0)
        try: dp=drop_point(d,pos,sl)
        except Exception: cnt["exc"]+=1; continue
        if dp is None or not sl.size: continue
        closed = sl.open_start==0 and sl.open_end==0
        tr=Transform(d); tr.replace(dp,dp,sl)
        L=leafseq(toks(sl.content)); N=leafseq(toks(tr.doc.content)); O=leafseq(toks(d.content))
        full = len(N)==len(O)+len(L)
        cnt[("closed" if closed else "open", "step" if tr.steps else "nostep", "full" if full else "partial")]+=1
        if closed and not full and shown<5 and n<50:
            shown+=1; print(d,"|",pos,dp,"|",sl,"|",tr.doc)
for k,v in sorted(cnt.items(),key=str): print(k,v)
