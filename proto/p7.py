import fixes
from prosemirror.test_builder import out, test_schema as S
from prosemirror.transform import *
doc,p,ul,li,blockquote,br = (out[k] for k in "doc p ul li blockquote br".split())
d=doc(ul(li(p("x"), ul(li(p("c"), blockquote(p("b"))), li(p())))))
n=d.content.size
seen=set()
for f in range(n+1):
    for t in range(f,n+1):
        r=d.resolve(f).block_range(d.resolve(t))
        if not r: continue
        tg=lift_target(r)
        if tg is None: continue
        try: Transform(d).lift(r,tg)
        except Exception as x:
            k=(r.start,r.end,r.depth,tg)
            if k not in seen:
                seen.add(k); print("range",r.start,r.end,"depth",r.depth,"parent",r.parent.type.name,"idx",r.start_index,r.end_index,"target",tg,"->",x)
print(d)
