import fixes
from proto import *
seen=0
for it in range(400):
    d=rdoc(); n=d.content.size
    for pos in range(n+1):
        e=rdoc(); a,b=sorted([rnd.randint(0,e.content.size),rnd.randint(0,e.content.size)]); sl=e.slice(a,b)
        try: dp=drop_point(d,pos,sl)
        except Exception: continue
        if dp is None or not sl.size: continue
        tr=Transform(d)
        tr.replace(dp,dp,sl)
        if not tr.steps:
            seen+=1
            if seen<=6 and d.content.size<40: print(d,"| pos",pos,"dp",dp,"| slice",sl)
print(seen)
