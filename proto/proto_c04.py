from proto import *
cnt=Counter(); ex={}
def note(k,v): cnt[k]+=1; ex.setdefault(k,v)
def rop(tr):
    d=tr.doc; n=d.content.size
    f,t=sorted([rnd.randint(0,n),rnd.randint(0,n)])
    k=rnd.choice(["replace","delete","delete_range","replace_range","add_mark","remove_mark","split","lift","wrap","insert","join","sbt","snm","attr","docattr","anm","rnm"])
    if k=="replace":
        e=rdoc(); a,b=sorted([rnd.randint(0,e.content.size),rnd.randint(0,e.content.size)]); tr.replace(f,t,e.slice(a,b))
    elif k=="replace_range":
        e=rdoc(); a,b=sorted([rnd.randint(0,e.content.size),rnd.randint(0,e.content.size)]); tr.replace_range(f,t,e.slice(a,b))
    elif k=="delete": tr.delete(f,t)
    elif k=="delete_range": tr.delete_range(f,t)
    elif k=="add_mark": tr.add_mark(f,t,rnd.choice(MARKS))
    elif k=="remove_mark": tr.remove_mark(f,t,rnd.choice(MARKS+[None,S.marks["em"]]))
    elif k=="split": tr.split(f, rnd.randint(1,2))
    elif k=="join": tr.join(f)
    elif k=="lift":
        r=d.resolve(f).block_range(d.resolve(t))
        tg=lift_target(r) if r else None
        if tg is not None: tr.lift(r,tg)
    elif k=="wrap":
        r=d.resolve(f).block_range(d.resolve(t))
        w=find_wrapping(r,S.nodes[rnd.choice(["blockquote","bullet_list","ordered_list"])]) if r else None
        if w: tr.wrap(r,w)
    elif k=="insert": tr.insert(f, rblock(2))
    elif k=="sbt": tr.set_block_type(f,t,S.nodes[rnd.choice(["paragraph","heading","code_block"])],{"level":2} if rnd.random()<.3 else None)
    elif k=="snm": tr.set_node_markup(f, rnd.choice([None,S.nodes["heading"],S.nodes["paragraph"],S.nodes["blockquote"]]), None)
    elif k=="attr": tr.set_node_attribute(f, rnd.choice(["level","order","src"]), rnd.choice([1,2,"x"]))
    elif k=="docattr": tr.set_doc_attribute("meta", rnd.choice([1,None,"m"]))
    elif k=="anm": tr.add_node_mark(f, rnd.choice(MARKS))
    elif k=="rnm": tr.remove_node_mark(f, rnd.choice(MARKS))
    return k
for it in range(1500):
    d0=rdoc(); tr=Transform(d0); ops=[]
    for _ in range(rnd.randint(1,8)):
        ns=len(tr.steps)
        try: k=rop(tr); ops.append(k)
        except (ValueError,) as x: cnt["rejected"]+=1; ops.append("rej")
        except Exception as x: cnt["internal:"+type(x).__name__]+=1; ops.append("int")
        if not (len(tr.steps)==len(tr.docs)==len(tr.mapping.maps)): note("ALIGN",(str(d0),ops)); break
    # replay
    cur=tr.before; bad=False
    for i,s_ in enumerate(tr.steps):
        r=s_.apply(cur)
        if r.failed: note("REPLAYFAIL",(str(d0),ops,i)); bad=True; break
        nxt=tr.docs[i+1] if i+1<len(tr.docs) else tr.doc
        if not r.doc.eq(nxt): note("REPLAYDIFF",(str(d0),ops,i)); bad=True; break
        cur=r.doc
    if bad: continue
    cur=tr.doc
    for i in range(len(tr.steps)-1,-1,-1):
        s_=tr.steps[i]
        try:
            inv=s_.invert(tr.docs[i]); r=inv.apply(cur)
        except Exception as x: note("UNDOEXC:"+type(s_).__name__+":"+type(x).__name__,(str(tr.docs[i]),s_.to_json(),ops)); bad=True; break
        if r.failed: note("UNDOFAIL:"+type(s_).__name__,(str(tr.docs[i]),s_.to_json(),inv.to_json(),r.failed)); bad=True; break
        if not r.doc.eq(tr.docs[i]): note("UNDODIFF:"+type(s_).__name__,(str(tr.docs[i]),s_.to_json(),inv.to_json(),str(r.doc))); bad=True; break
        # inverse map
        m1=inv.get_map(); m2=s_.get_map().invert()
        for p in range(cur.content.size+1):
            for a in (-1,1):
                if m1.map(p,a)!=m2.map(p,a): note("INVMAP:"+type(s_).__name__,(s_.to_json(),p,a)); break
        cur=r.doc
    if not bad: cnt["ok%d"%min(len(tr.steps),3)]+=1
print(cnt)
for k,v in ex.items(): print(k,str(v)[:900])
