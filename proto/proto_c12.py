import fixes
from proto import *
from prosemirror.transform.structure import NodeTypeWithAttrs
cnt=Counter(); ex={}
def note(k,v):
    cnt[k]+=1; ex.setdefault(k,v)
def perform(tag, d, fn, leaf_same=True):
    tr=Transform(d)
    try: fn(tr)
    except Exception as x: note(tag+":EDITFAIL:"+type(x).__name__, (str(d), str(x)[:80])); return
    if not valid(tr.doc): note(tag+":INVALID",(str(d),str(tr.doc))); return
    if leaf_same and leafseq(toks(d.content))!=leafseq(toks(tr.doc.content)): note(tag+":LEAFCHG",(str(d),str(tr.doc))); return
    cnt[tag+":ok"]+=1
types=list(S.nodes.values())
for it in range(120):
    d=rdoc(); n=d.content.size
    for pos in range(n+1):
        for depth in (1,2,3):
            try: ok=can_split(d,pos,depth)
            except Exception as x: note("can_split:EXC:"+type(x).__name__,(str(d),pos,depth)); continue
            if ok: perform("split",d,lambda tr: tr.split(pos,depth))
        try: ok=can_join(d,pos)
        except Exception as x: note("can_join:EXC:"+type(x).__name__,(str(d),pos)); ok=False
        if ok: perform("join",d,lambda tr: tr.join(pos))
        for dr in (-1,1):
            try: jp=join_point(d,pos,dr)
            except Exception as x: note("join_point:EXC:"+type(x).__name__,(str(d),pos,dr)); continue
            if jp is not None:
                if not (0<=jp<=n): note("join_point:RANGE",(str(d),pos,dr,jp))
                else: perform("joinpt",d,lambda tr: tr.join(jp))
        for ty in rnd.sample(types,3):
            try: ip=insert_point(d,pos,ty)
            except Exception as x: note("insert_point:EXC:"+type(x).__name__,(str(d),pos,ty.name)); continue
            if ip is not None and ty.name!="text":
                attrs={"src":"x"} if ty.name=="image" else None
                node=ty.create_and_fill(attrs)
                def ins(tr):
                    tr.step(ReplaceStep(ip,ip,Slice(Fragment.from_(node),0,0)))
                perform("insert_point",d,ins,leaf_same=False)
        e=rdoc(); a,b=sorted([rnd.randint(0,e.content.size),rnd.randint(0,e.content.size)]); sl=e.slice(a,b)
        try: dp=drop_point(d,pos,sl)
        except Exception as x: note("drop_point:EXC:"+type(x).__name__,(str(d),pos,str(sl))); dp=None
        if dp is not None and sl.size:
            def drp(tr):
                tr.replace(dp,dp,sl)
                if not tr.steps: raise RuntimeError("no step")
            perform("drop_point",d,drp,leaf_same=False)
    for _ in range(40):
        f,t=sorted([rnd.randint(0,n),rnd.randint(0,n)])
        r=d.resolve(f).block_range(d.resolve(t))
        if not r: continue
        try: tg=lift_target(r)
        except Exception as x: note("lift_target:EXC:"+type(x).__name__,(str(d),f,t)); tg=None
        if tg is not None:
            if not (0<=tg<r.depth): note("lift_target:RANGE",(str(d),f,t,tg))
            perform("lift",d,lambda tr: tr.lift(r,tg))
        for ty in rnd.sample(types,3):
            try: w=find_wrapping(r,ty, {"src":"x"} if ty.name=="image" else None)
            except Exception as x: note("find_wrapping:EXC:"+type(x).__name__,(str(d),f,t,ty.name)); continue
            if w is not None: perform("wrap",d,lambda tr: tr.wrap(r,w))
print(cnt)
for k,v in ex.items(): print(k,str(v)[:700])
