from proto import *
import proto_c04 as _  # noqa (reuse rop) 
