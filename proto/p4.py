import traceback
from prosemirror.test_builder import out, test_schema as s
from prosemirror.model import Fragment, Slice, Mark, Schema
from prosemirror.transform import *
from collections import Counter
nodes = {**s.spec["nodes"], "iso": {"group":"block","content":"block+","isolating":True}}
S = Schema({"nodes":nodes, "marks": s.spec["marks"]})
def n(t,*c,**at): return S.node(t, at or None, list(c))
d = n("doc", n("paragraph", S.text("before")), n("iso", n("paragraph", S.text("in"))), n("paragraph", S.text("after")))
print(d, d.content.size)
# iso opens at 8; content 9..13
tr = Transform(d).delete_range(10, 12)
print("delete_range whole iso para text:", tr.doc)
tr = Transform(d).delete_range(9, 13)
print("delete_range whole iso content:", tr.doc)
print("max_open(False):", Slice.max_open(Fragment.from_(n("iso", n("paragraph", S.text("x")))), False).open_start)
print("max_open(False) bq:", Slice.max_open(Fragment.from_(n("blockquote", n("paragraph", S.text("x")))), False).open_start)
# join_point wrap-around
d2 = n("doc", n("blockquote", n("paragraph", S.text("a"))))
for pos in range(d2.content.size+1):
    for dr in (-1,1):
        try:
            jp = join_point(d2, pos, dr)
            if jp is not None:
                ok = can_join(d2, jp)
                print("join_point", pos, dr, "->", jp, "can_join:", ok)
                try: Transform(d2).join(jp)
                except Exception as e: print("   join fails:", type(e).__name__, e)
        except Exception as e: print("jp exc", pos, dr, type(e).__name__, e)
