import faulthandler; faulthandler.dump_traceback_later(20, exit=True)
import fixes
import prosemirror.transform.replace as R, prosemirror.transform.transform as TT
import inspect, re
# simulate covered_depths fix
src=inspect.getsource(R.covered_depths).replace('"isolation"','"isolating"')
exec(src, R.__dict__); TT.covered_depths=R.covered_depths
import prosemirror.transform as TP; TP.covered_depths=R.covered_depths
import random, json, sys
from collections import Counter
from prosemirror.model import Schema, Fragment, Slice, Mark
from prosemirror.transform import Transform
from prosemirror.test_builder import test_schema as S0
rnd=random.Random(int(sys.argv[1]) if len(sys.argv)>1 else 0)
nodes={**S0.spec["nodes"],
  "iso":{"group":"block","content":"block+","isolating":True},
  "table":{"group":"block","content":"row+","isolating":True},
  "row":{"content":"cell+"},
  "cell":{"content":"block+","isolating":True}}
S=Schema({"nodes":nodes,"marks":S0.spec["marks"]})
def mk(m): return (m.type.name, json.dumps(m.attrs, sort_keys=True))
def toks(frag):
    r=[]
    for ch in frag.content:
        mu=(ch.type.name, json.dumps(ch.attrs, sort_keys=True), tuple(mk(m) for m in ch.marks))
        if ch.is_text:
            for u in ch.text: r.append(("T",u,mu[2]))
        elif ch.is_leaf: r.append(("L",)+mu)
        else: r.append(("O",)+mu); r.extend(toks(ch.content)); r.append(("C",))
    return r
def valid(d):
    try: d.check(); return True
    except Exception: return False
def rinl(): return Fragment.from_([S.text(rnd.choice(["a","bc","d e"])) for _ in range(rnd.randint(0,2))])
def rb(d=0):
    r=rnd.random()
    if d>2: r=min(r,.4)
    if r<.4: return S.node("paragraph",None,rinl())
    if r<.5: return S.node("blockquote",None,[rb(d+1)])
    if r<.65: return S.node("iso",None,[rb(d+1) for _ in range(rnd.randint(1,2))])
    if r<.8: return S.node("bullet_list",None,[S.node("list_item",None,[S.node("paragraph",None,rinl())]+([rb(d+2)] if rnd.random()<.3 else [])) for _ in range(rnd.randint(1,2))])
    return S.node("table",None,[S.node("row",None,[S.node("cell",None,[rb(d+2) for _ in range(rnd.randint(1,2))]) for _ in range(rnd.randint(1,2))]) for _ in range(rnd.randint(1,2))])
def rdoc(): return S.node("doc",None,[rb() for _ in range(rnd.randint(1,3))])
cnt=Counter(); ex={}
def note(k,v): cnt[k]+=1; ex.setdefault(k,v)
for it in range(400):
    d=rdoc(); n=d.content.size; T=toks(d.content)
    # find iso instances: (open index a, close index b)
    inst=[]
    def f(node,pos,parent,i):
        if node.type.spec.get("isolating"): inst.append((pos,pos+node.node_size-1,node.type.name))
    d.descendants(f)
    for (a,b,nm) in inst:
        for _ in range(6):
            f_,t_=sorted([rnd.randint(a+1,b),rnd.randint(a+1,b)])
            e=rdoc(); x,y=sorted([rnd.randint(0,e.content.size),rnd.randint(0,e.content.size)]); sl=e.slice(x,y)
            for op in ("replace","replace_range","delete","delete_range"):
                tr=Transform(d)
                try:
                    if op.startswith("delete"): getattr(tr,op)(f_,t_)
                    else: getattr(tr,op)(f_,t_,sl)
                except Exception as xx: note(op+":EXC:"+type(xx).__name__,(str(d),f_,t_,str(sl))); continue
                N=toks(tr.doc.content)
                tail=len(T)-b
                if N[:a+1]!=T[:a+1] or N[len(N)-tail:]!=T[b:]:
                    note(op+":LEAK:"+nm,(str(d),a,b,f_,t_,str(sl) if not op.startswith("delete") else "",str(tr.doc)))
                else: cnt[op+":ok"]+=1
print(cnt)
for k,v in ex.items(): print(k,str(v)[:900])
