from proto import *
from prosemirror.model import DOMSerializer
from prosemirror.model.from_dom import from_html
import signal
def alarm(*a): raise TimeoutError("hang")
signal.signal(signal.SIGALRM, alarm)
cnt=Counter(); ex={}
def note(k,v): cnt[k]+=1; ex.setdefault(k,v)
BL=["p","div","h1","h3","blockquote","pre","ul","ol","li","hr","table","tr","td"]
IN=["em","i","b","strong","code","a","span","br","img","u"]
IG=["script","style","title","noscript"]
def rhtml(d=0):
    r=rnd.random()
    if d>3 or r<0.3: return rnd.choice(["a","b c"," ","\n ","x  y","&amp;","<b>"[:0]])
    tag=rnd.choice(BL+IN+IG+["x-foo"])
    at=""
    if tag=="a" and rnd.random()<.7: at=' href="u"'
    if tag=="img" and rnd.random()<.7: at=' src="s"'
    if rnd.random()<.15: at+=' style="%s"'%rnd.choice(["font-weight: bold","color:red","font-style=italic","font-style: italic; color: blue"])
    if tag in ("br","hr","img"): return f"<{tag}{at}>"
    inner="".join(rhtml(d+1) for _ in range(rnd.randint(0,3)))
    return f"<{tag}{at}>{inner}</{tag}>"
for it in range(3000):
    h="".join(rhtml() for _ in range(rnd.randint(1,3)))
    signal.alarm(3)
    try:
        j=from_html(S,h)
        signal.alarm(0)
        dd=S.node_from_json(j)
        if not valid(dd): note("PARSE:INVALID",(h,str(dd)))
        else: cnt["parse:ok"]+=1
    except TimeoutError: note("PARSE:HANG",h)
    except Exception as x:
        signal.alarm(0); note("PARSE:EXC:"+type(x).__name__+":"+str(x)[:40],h)
ser=DOMSerializer.from_schema(S)
def wsnormal(d):
    ok=True
    def f(node,pos,parent,i):
        nonlocal ok
        if node.is_text:
            t=node.text
            if parent.type.name!="code_block" and ("  " in t or "\n" in t): ok=False
    d.descendants(f)
    # block-edge spaces
    def g(node,pos,parent,i):
        nonlocal ok
        if node.is_textblock and node.type.name!="code_block" and node.child_count:
            fc,lc=node.first_child,node.last_child
            if fc.is_text and fc.text.startswith(" "): ok=False
            if lc.is_text and lc.text.endswith(" "): ok=False
            for k in range(node.child_count-1):
                a,b=node.child(k),node.child(k+1)
                if a.is_text and b.is_text and a.text.endswith(" ") and b.text.startswith(" "): ok=False
                if a.type.name=="hard_break" and b.is_text and b.text.startswith(" "): ok=False
    d.descendants(g)
    return ok
for it in range(3000):
    d=rdoc()
    try: h=str(ser.serialize_fragment(d.content))
    except Exception as x: note("SER:EXC:"+type(x).__name__,(str(d),)); continue
    if not wsnormal(d): cnt["skip-ws"]+=1; continue
    signal.alarm(3)
    try:
        j=from_html(S,h); signal.alarm(0)
        d2=S.node_from_json(j)
        if not d2.eq(d): note("RT:DIFF",(str(d),h,str(d2)))
        else: cnt["rt:ok"]+=1
    except TimeoutError: note("RT:HANG",h)
    except Exception as x: signal.alarm(0); note("RT:EXC:"+type(x).__name__,(str(d),h))
print(cnt)
for k,v in ex.items(): print(k,str(v)[:600])
