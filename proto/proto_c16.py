from proto import *
cnt=Counter(); ex={}
def rslice():
    e=rdoc(); a,b=sorted([rnd.randint(0,e.content.size),rnd.randint(0,e.content.size)]); return e.slice(a,b)
for it in range(3000):
    d=rdoc(); n=d.content.size
    f,t=sorted([rnd.randint(0,n),rnd.randint(0,n)])
    kind=rnd.random()
    if kind<0.7:
        s1=ReplaceStep(f,t,rslice() if rnd.random()<.6 else (Slice.empty if rnd.random()<.5 else Slice(Fragment.from_(rtext()),0,0)))
        r1=s1.apply(d)
        if r1.failed: cnt["s1fail"]+=1; continue
        d1=r1.doc; n1=d1.content.size
        if rnd.random()<.5:
            f2=s1.from_+s1.slice.size; t2=rnd.randint(f2,min(n1,f2+6))
        else:
            t2=s1.from_; f2=rnd.randint(max(0,t2-6),t2)
        s2=ReplaceStep(f2,t2,rslice() if rnd.random()<.5 else (Slice.empty if rnd.random()<.5 else Slice(Fragment.from_(rtext()),0,0)))
    else:
        m=rnd.choice(MARKS); cls=rnd.choice([AddMarkStep,RemoveMarkStep])
        s1=cls(f,t,m); r1=s1.apply(d)
        if r1.failed: cnt["s1fail"]+=1; continue
        d1=r1.doc; f2,t2=sorted([rnd.randint(0,n),rnd.randint(0,n)]); s2=cls(f2,t2,m)
    try: r2=s2.apply(d1)
    except Exception as x: cnt["s2exc:"+type(x).__name__]+=1; continue
    if r2.failed: cnt["s2fail"]+=1; continue
    m_=s1.merge(s2)
    if m_ is None: cnt["nomerge"]+=1; continue
    key=type(s1).__name__
    try: rm=m_.apply(d)
    except Exception as x: cnt["MEXC:"+key]+=1; ex.setdefault("MEXC:"+key,(str(d),s1.to_json(),s2.to_json(),repr(x))); continue
    if rm.failed: cnt["MFAIL:"+key]+=1; ex.setdefault("MFAIL:"+key,(str(d),s1.to_json(),s2.to_json(),rm.failed)); continue
    if not rm.doc.eq(r2.doc): cnt["MDIFF:"+key]+=1; ex.setdefault("MDIFF:"+key,(str(d),s1.to_json(),s2.to_json(),str(rm.doc),str(r2.doc))); continue
    cnt["ok:"+key+(":open" if isinstance(s1,ReplaceStep) and (m_.slice.open_start or m_.slice.open_end) else "")]+=1
print(cnt)
for k,v in ex.items(): print(k,str(v)[:1500])
