import itertools
from collections import Counter
from prosemirror.transform import StepMap, Mapping
cnt=Counter(); ex={}
def note(k,v): cnt[k]+=1; ex.setdefault(k,[]).append(v)
def refmap(tr, pos, assoc):
    # tr: list of (start, old, new) in pre-image coords, sorted, non-overlapping
    diff=0
    for (s,o,n) in tr:
        if s>pos: break
        e=s+o
        if pos<=e:
            side = assoc if o==0 else (-1 if pos==s else (1 if pos==e else assoc))
            return s+diff+(0 if side<0 else n)
        diff+=n-o
    return pos+diff
def gen(k):
    for combo in itertools.product(itertools.product(range(3),range(3),range(3)), repeat=k):
        tr=[]; cur=0
        for (gap,o,n) in combo:
            s=cur+gap; tr.append((s,o,n)); cur=s+o
        yield tr
for k in (1,2):
    for tr in gen(k):
        flat=[x for t in tr for x in t]
        m=StepMap(flat); end=tr[-1][0]+tr[-1][1]+2
        # inverted triple in new coords
        inv=[]; diff=0
        for (s,o,n) in tr: inv.append((s+diff,n,o)); diff+=n-o
        for pos in range(end+1):
            for a in (-1,1):
                if m.map(pos,a)!=refmap(tr,pos,a): note("MAP",(flat,pos,a,m.map(pos,a),refmap(tr,pos,a)))
                mm=Mapping([m,m.invert()],[0,1])
                if mm.map(pos,a)!=pos: note("MIRROR",(flat,pos,a,mm.map(pos,a)))
        newend=inv[-1][0]+inv[-1][1]+2
        mi=m.invert()
        for pos in range(newend+1):
            for a in (-1,1):
                if mi.map(pos,a)!=refmap(inv,pos,a): note("INVMAP",(flat,pos,a,mi.map(pos,a),refmap(inv,pos,a)))
        cnt["maps"]+=1
print(cnt)
for k,v in ex.items(): print(k, sorted(set(tuple(x[0]) for x in v)))
