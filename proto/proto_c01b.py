from proto import *
import importlib.util, types
src=open('/tmp/probe/proto_c04.py').read().split("for it in range(1500):")[0]
g={}; exec(src, g); rop=g['rop']; 
import proto; g['rnd']=proto.rnd
cnt=Counter(); seen=set()
for it in range(4000):
    d0=rdoc(); tr=Transform(d0)
    for _ in range(rnd.randint(1,8)):
        n0=len(tr.steps)
        try: k=rop(tr)
        except Exception: continue
        for i in range(n0,len(tr.steps)):
            nd=tr.docs[i+1] if i+1<len(tr.docs) else tr.doc
            if valid(tr.docs[i]) and not valid(nd):
                key=(k,type(tr.steps[i]).__name__)
                cnt[key]+=1
                if key not in seen:
                    seen.add(key); print(key, str(tr.docs[i])[:300], tr.steps[i].to_json(), "->", str(nd)[:300])
print(cnt)
