from proto import *
cnt=Counter(); ex={}
def note(k,v): cnt[k]+=1; ex.setdefault(k,v)
def rt(x): return json.loads(json.dumps(x))
src=open('/tmp/probe/proto_c04.py').read().split("for it in range(1500):")[0]
g={}; exec(src,g); rop=g['rop']
for it in range(1500):
    d=rdoc()
    j=d.to_json(); d2=S.node_from_json(rt(j))
    if not d2.eq(d) or d2.to_json()!=j: note("DOC",(str(d),))
    else: cnt["doc:ok"]+=1
    n=d.content.size; f,t=sorted([rnd.randint(0,n),rnd.randint(0,n)])
    sl=d.slice(f,t); sj=sl.to_json(); s2=Slice.from_json(S,rt(sj))
    if not s2.eq(sl) or s2.to_json()!=sj: note("SLICE",(str(sl),sj))
    else: cnt["slice:ok"]+=1
    tr=Transform(d)
    for _ in range(4):
        try: rop(tr)
        except Exception: pass
    for i,s_ in enumerate(tr.steps):
        sj=s_.to_json()
        try: s2=Step.from_json(S,rt(sj))
        except Exception as x: note("STEPDEC:"+type(s_).__name__+":"+type(x).__name__,(sj,)); continue
        if s2.to_json()!=sj: note("STEPJSON:"+type(s_).__name__,(sj,s2.to_json())); continue
        r1=s_.apply(tr.docs[i]); r2=s2.apply(tr.docs[i])
        if bool(r1.failed)!=bool(r2.failed) or (r1.doc and not r1.doc.eq(r2.doc)): note("STEPEFFECT:"+type(s_).__name__,(sj,)); continue
        if s_.get_map().ranges!=s2.get_map().ranges: note("STEPMAP:"+type(s_).__name__,(sj,)); continue
        if hasattr(s_,"slice") and not s_.slice.eq(s2.slice): note("STEPSLICEEQ:"+type(s_).__name__,(sj,str(s_.slice),str(s2.slice))); continue
        cnt["step:ok:"+type(s_).__name__]+=1
print(cnt)
for k,v in ex.items(): print(k,str(v)[:600])
