import faulthandler; faulthandler.dump_traceback_later(30, exit=True)
import prosemirror.transform.replace as R
from prosemirror.model import Schema, Fragment, Slice
from prosemirror.transform import Transform
from prosemirror.test_builder import test_schema as S0
nodes={**S0.spec["nodes"],
  "table":{"group":"block","content":"row+","isolating":True},
  "row":{"content":"cell+"},
  "cell":{"content":"block+","isolating":True}}
S=Schema({"nodes":nodes,"marks":S0.spec["marks"]})
def n(t,*c): return S.node(t,None,list(c))
d=n("doc",n("paragraph",S.text("abcdef")))
e=n("doc",n("table",n("row",n("cell",n("paragraph",S.text("x")),n("paragraph",S.text("y")))),n("row",n("cell",n("paragraph",S.text("z"))))))
print(e, e.content.size)
orig=R.Fitter.find_fittable; it=[0]
def ff(self):
    it[0]+=1
    r=orig(self)
    if it[0]<12:
        print(it[0],"unplaced",self.unplaced,"frontier",[f.type.name for f in self.frontier],"->", r and (r.slice_depth,r.frontier_depth,r.parent and r.parent.type.name,str(r.inject),r.wrap))
    if it[0]>50: raise RuntimeError("loop")
    return r
R.Fitter.find_fittable=ff
for (a,b) in [(4,16),(4,12),(3,16)]:
    it[0]=0
    sl=e.slice(a,b); print("slice",a,b,sl)
    try: print(Transform(d).replace(2,5,sl).doc)
    except RuntimeError as x: print("LOOP")
