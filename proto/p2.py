import sys, traceback, random
from prosemirror.test_builder import out, test_schema as s
from prosemirror.model import Fragment, Slice, Mark, Schema
from prosemirror.transform import *
from prosemirror.transform.structure import NodeTypeWithAttrs
doc,p,em,strong,ul,li,blockquote,pre,h1,br,img,ol,hr,a = (out[k] for k in "doc p em strong ul li blockquote pre h1 br img ol hr a".split())

def valid(d):
    try: d.check(); return True
    except Exception as e: return False

# C01: wrap li content into blockquote via ReplaceAroundStep
d = doc(ul(li(p("a")), li(p("b"))))
# wrap the list items (gap = list items 1..end of ul content) in blockquote
st = ReplaceAroundStep(1, d.content.size-1, 1, d.content.size-1, Slice(Fragment.from_(s.node("blockquote", None, [s.node("paragraph")])).cut(0,0) if False else Fragment.from_(s.nodes["blockquote"].create()), 0, 0), 1, True)
r = st.apply(d)
print("C01 wrap li in bq:", r.failed, r.doc, r.doc and valid(r.doc))

# random deletes on list docs
random.seed(1)
docs = [doc(ul(li(p("a")), li(p("b"), ul(li(p("c"))))), p("d")),
        doc(ol(li(p("one"), ul(li(p("two")), li(p("three")))), li(p("four")))),
        doc(blockquote(ul(li(p("x")), li(p("y")))), pre("code"), h1("t")),
        ]
from collections import Counter
cnt = Counter()
ex = {}
for d in docs:
    n = d.content.size
    for f in range(n+1):
        for t in range(f, n+1):
            for name in ("delete","delete_range"):
                try:
                    tr = Transform(d); getattr(tr,name)(f,t)
                    if not valid(tr.doc): cnt[name+":invalid"]+=1; ex.setdefault(name+":invalid",(str(d),f,t))
                    else: cnt[name+":ok"]+=1
                except Exception as e:
                    k = name+":"+type(e).__name__+":"+str(e)[:50]
                    cnt[k]+=1; ex.setdefault(k,(str(d),f,t))
for k,v in cnt.items(): print(k, v, ex.get(k))
