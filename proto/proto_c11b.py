import faulthandler; faulthandler.dump_traceback_later(280, exit=True)
import sys, random, json
USEFIX = len(sys.argv)>2
if USEFIX: import fixes
import prosemirror.transform.replace as R
orig_find=R.Fitter.find_fittable; counts={}
class Loop(Exception): pass
def ff(self):
    c=counts.get(id(self),0)+1; counts[id(self)]=c
    if c>300: raise Loop("fit loop")
    return orig_find(self)
R.Fitter.find_fittable=ff
from collections import Counter
from gdoc import schemas, Gen
from prosemirror.model import Fragment, Slice
from prosemirror.transform import Transform
rnd=random.Random(int(sys.argv[1]))
def mk(m): return (m.type.name, json.dumps(m.attrs, sort_keys=True))
def toks(frag):
    r=[]
    for ch in frag.content:
        mu=(ch.type.name, json.dumps(ch.attrs, sort_keys=True), tuple(mk(m) for m in ch.marks))
        if ch.is_text:
            for u in ch.text: r.append(("T",u,mu[2]))
        elif ch.is_leaf: r.append(("L",)+mu)
        else: r.append(("O",)+mu); r.extend(toks(ch.content)); r.append(("C",))
    return r
def leafseq(t): return [x for x in t if x[0] in "TL"]
def units(ls): return [x[1] for x in ls if x[0]=="T"]
def subseq(a,b):
    it=iter(b); return all(any(x==y for y in it) for x in a)
def valid(d):
    try: d.check(); return True
    except Exception: return False
cnt=Counter(); ex={}
def note(k,v): cnt[k]+=1; ex.setdefault(k,v)
for name,S in schemas().items():
    g=Gen(S,rnd)
    for it in range(60):
        d=g.doc(); e=g.doc(); n=d.content.size; T=toks(d.content)
        for _ in range(25):
            f,t=sorted([rnd.randint(0,n),rnd.randint(0,n)])
            x,y=sorted([rnd.randint(0,e.content.size),rnd.randint(0,e.content.size)])
            try: sl=e.slice(x,y)
            except Exception: continue
            st=units(leafseq(toks(sl.content)))
            for op in ("replace","replace_range","delete","delete_range"):
                tr=Transform(d); counts.clear()
                try:
                    if op.startswith("delete"): getattr(tr,op)(f,t); ins=[]
                    else: getattr(tr,op)(f,t,sl); ins=st
                except Exception as x_:
                    note(f"{name}:{op}:EXC:{type(x_).__name__}:{str(x_)[:40]}",(str(d),f,t,str(sl))); continue
                if not valid(tr.doc): note(f"{name}:{op}:INVALID",(str(d),f,t,str(sl),str(tr.doc))); continue
                P=leafseq(T[:f]); Sx=leafseq(T[t:]); N=leafseq(toks(tr.doc.content))
                if N[:len(P)]!=P or (Sx and N[-len(Sx):]!=Sx) or len(P)+len(Sx)>len(N):
                    note(f"{name}:{op}:SURROUND",(str(d),f,t,str(sl),str(tr.doc))); continue
                if not subseq(units(N[len(P):len(N)-len(Sx)]),ins): note(f"{name}:{op}:MIDDLE",(str(d),f,t,str(sl),str(tr.doc))); continue
                cnt[f"{name}:ok"]+=1
for k,v in sorted(cnt.items()): print(k,v)
print("----")
for k,v in ex.items(): print(k,str(v)[:700])
