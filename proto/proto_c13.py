import random, json, sys
from collections import Counter
from prosemirror.model import Schema, Mark, Fragment
from prosemirror.transform import Transform
rnd=random.Random(int(sys.argv[1]) if len(sys.argv)>1 else 0)
FIX = len(sys.argv)>2
if FIX:
    def add_to_set(self, set):
        copy=None; placed=False
        for i in range(len(set)):
            other=set[i]
            if self.eq(other): return set
            if self.type.excludes(other.type):
                if copy is None: copy=set[0:i]
            elif other.type.excludes(self.type): return set
            else:
                if not placed and other.type.rank>self.type.rank:
                    if copy is None: copy=set[0:i]
                    copy.append(self); placed=True
                if copy is not None: copy.append(other)
        if copy is None: copy=set[:]
        if not placed: copy.append(self)
        return copy
    Mark.add_to_set=add_to_set
cnt=Counter(); ex={}
def note(k,v): cnt[k]+=1; ex.setdefault(k,v)
names=["m0","m1","m2","m3"]
def rschema():
    marks={}
    for n in names:
        spec={}
        r=rnd.random()
        if r<0.3: spec["excludes"]=" ".join(rnd.sample(names,rnd.randint(0,3)))
        elif r<0.4: spec["excludes"]="_"
        if rnd.random()<.3: spec["attrs"]={"k":{"default":0}}
        marks[n]=spec
    nodes={"doc":{"content":"block+"},"p":{"content":"inline*","group":"block"},
           "q":{"content":"inline*","group":"block","marks":" ".join(rnd.sample(names,2))},
           "c":{"content":"text*","group":"block","marks":""},
           "bq":{"content":"block+","group":"block"},
           "text":{"group":"inline"},"br":{"inline":True,"group":"inline"}}
    return Schema({"nodes":nodes,"marks":marks})
def excl(S,a,b): # does type a exclude type b
    e=S.marks[a].spec.get("excludes")
    if e is None: return a==b
    if e=="": return False
    return "_" in e.split() or b in e.split()
def key(m): return (m.type.name, json.dumps(m.attrs,sort_keys=True))
def ref_add(S,m,ms):  # ms list of keys in canonical order; m key
    if m in ms: return ms
    if any(excl(S,o[0],m[0]) for o in ms if not excl(S,m[0],o[0])): return ms
    # note: repo returns unchanged only when encountering an excluder that m doesn't itself exclude (order dependent)
    out=[o for o in ms if not excl(S,m[0],o[0])]
    rk={n:i for i,n in enumerate(names)}
    i=0
    while i<len(out) and rk[out[i][0]]<=rk[m[0]]: i+=1
    return out[:i]+[m]+out[i:]
def canon(S,ms):
    cur=[]
    for m in ms: cur=m.add_to_set(cur)
    return cur
def toks(S,node,parent=None,out=None):
    if out is None: out=[]
    for ch in node.content.content:
        if ch.is_text:
            for u in ch.text: out.append(("T",u,tuple(key(m) for m in ch.marks),node.type.name))
        elif ch.is_leaf: out.append(("L",ch.type.name,tuple(key(m) for m in ch.marks),node.type.name))
        else:
            out.append(("O",ch.type.name)); toks(S,ch,node,out); out.append(("C",))
    return out
for it in range(600):
    S=rschema()
    def rmark():
        n=rnd.choice(names); t=S.marks[n]
        return t.create({"k":rnd.randint(0,1)} if t.attrs else None)
    def rinl(pt):
        r=[]
        for _ in range(rnd.randint(0,3)):
            ms=[]
            if pt!="c":
                for _ in range(rnd.randint(0,2)):
                    m=rmark()
                    if S.nodes[pt].allows_mark_type(m.type): ms=m.add_to_set(ms)
            r.append(S.text(rnd.choice(["a","bc","d"]),ms) if rnd.random()<.8 or pt=="c" else S.node("br",None,None,ms))
        return Fragment.from_(r)
    def rb(d=0):
        t=rnd.choice(["p","q","c","bq"] if d<2 else ["p","q","c"])
        return S.node("bq",None,[rb(d+1) for _ in range(rnd.randint(1,2))]) if t=="bq" else S.node(t,None,rinl(t))
    d=S.node("doc",None,[rb() for _ in range(rnd.randint(1,3))])
    try: d.check()
    except Exception as x: note("GENINVALID",(str(d),str(x))); continue
    n=d.content.size; T=toks(S,d)
    for _ in range(10):
        f,t=sorted([rnd.randint(0,n),rnd.randint(0,n)]); m=rmark(); mk_=key(m)
        tr=Transform(d)
        try: tr.add_mark(f,t,m)
        except Exception as x: note("ADD:EXC:"+type(x).__name__,(str(d),f,t,mk_,str(x))); continue
        N=toks(S,tr.doc)
        if len(N)!=len(T): note("ADD:LEN",(str(d),f,t)); continue
        bad=None
        for i,(a,b) in enumerate(zip(T,N)):
            if a[0] in "TL":
                inr = f<=i<t and S.nodes[a[3]].allows_mark_type(m.type)
                exp = tuple(ref_add(S,mk_,list(a[2]))) if inr else a[2]
                if b[:2]!=a[:2] or b[2]!=exp: bad=(i,a,b,exp); break
            elif a!=b: bad=(i,a,b); break
        if bad: note("ADD:MISMATCH",(str(d),f,t,mk_,{k:v.spec for k,v in S.marks.items()},bad,str(tr.doc)))
        else: cnt["add:ok"]+=1
        # remove
        which=rnd.choice(["mark","type","all"]); arg=m if which=="mark" else (m.type if which=="type" else None)
        tr=Transform(d)
        try: tr.remove_mark(f,t,arg)
        except Exception as x: note("RM:EXC:"+type(x).__name__,(str(d),f,t,mk_,str(x))); continue
        N=toks(S,tr.doc); bad=None
        for i,(a,b) in enumerate(zip(T,N)):
            if a[0] in "TL":
                if f<=i<t:
                    exp=tuple(k for k in a[2] if not (k==mk_ if which=="mark" else (k[0]==mk_[0] if which=="type" else True)))
                else: exp=a[2]
                if b[:2]!=a[:2] or b[2]!=exp: bad=(i,a,b,exp); break
            elif a!=b: bad=(i,a,b); break
        if bad or len(N)!=len(T): note("RM:MISMATCH",(str(d),f,t,which,mk_,bad,str(tr.doc)))
        else: cnt["rm:ok"]+=1
print(cnt)
for k,v in ex.items(): print(k,str(v)[:1000])
