# generic random valid-document generator driven by the compiled ContentMatch (prototype only)
import random, json
from prosemirror.model import Schema, Fragment, Slice, Mark
from prosemirror.test_builder import test_schema as S0
from prosemirror.schema.basic import schema as SB
def schemas():
    base=S0.spec["nodes"]; marks=S0.spec["marks"]
    out={}
    out["list"]=S0
    out["basic"]=SB
    n=dict(base); n.update({"doc":{"content":"heading body"},"body":{"content":"block+"}})
    out["strict"]=Schema({"nodes":n,"marks":marks})
    n=dict(base); n.update({"title":{"content":"text*"},"doc":{"content":"title? block*"}})
    out["title"]=Schema({"nodes":n,"marks":marks})
    n=dict(base); n.update({"iso":{"group":"block","content":"block+","isolating":True}})
    out["iso"]=Schema({"nodes":n,"marks":marks})
    n=dict(base); n.update({"table":{"group":"block","content":"row+","isolating":True},"row":{"content":"cell+"},"cell":{"content":"block+","isolating":True}})
    out["table"]=Schema({"nodes":n,"marks":marks})
    out["structure"]=Schema({"nodes":{
        "doc":{"content":"head? block* sect* closing?"},"para":{"content":"text*","group":"block"},
        "head":{"content":"text*","marks":""},"figure":{"content":"caption figureimage","group":"block"},
        "quote":{"content":"block+","group":"block"},"figureimage":{},"caption":{"content":"text*","marks":""},
        "sect":{"content":"head block* sect*"},"closing":{"content":"text*"},"text":{"group":"inline"},
        "fixed":{"content":"head para closing","group":"block"}},"marks":{"em":{}}})
    out["fixedab"]=Schema({"nodes":{"doc":{"content":"block+"},"a":{"content":"inline*"},"b":{"content":"inline*"},"block":{"content":"a b"},"text":{"group":"inline"}}})
    n=dict(base); n["doc"]={**base["doc"],"marks":"_"}
    out["topmarks"]=Schema({"nodes":n,"marks":marks})
    return out
class Gen:
    def __init__(self,S,rnd): self.S=S; self.rnd=rnd
    def attrs(self,t):
        a={}
        for k,v in t.attrs.items():
            if not v.has_default or self.rnd.random()<.3:
                a[k]={"level":self.rnd.randint(1,3),"order":self.rnd.randint(1,3)}.get(k,"v")
        return a or None
    def marks(self,parent):
        ms=[]
        for mt in self.S.marks.values():
            if parent.allows_mark_type(mt) and self.rnd.random()<.2:
                m=mt.create({k:"u" for k,v in mt.attrs.items() if not v.has_default} or None)
                ms=m.add_to_set(ms)
        return ms
    def node(self,t,depth=0):
        if t.is_text: raise ValueError
        if t.is_leaf: return t.create(self.attrs(t))
        kids=[]; m=t.content_match; n=0
        while True:
            stop = m.valid_end and (self.rnd.random()<(.35+.15*depth) or n>=4)
            if stop or not m.next: break
            edges=m.next if depth<4 else [e for e in m.next if e.type.is_leaf or e.type.is_text or e.type.inline_content] or m.next
            e=self.rnd.choice(edges)
            if e.type.is_text:
                kids.append(self.S.text(self.rnd.choice(["a","bc","d e","f"]), self.marks(t)))
            else:
                k=self.node(e.type,depth+1)
                if k.is_inline: k=k.mark(self.marks(t))
                kids.append(k)
            m=e.next; n+=1
            if n>8 and not m.valid_end:
                fill=m.fill_before(Fragment.empty,True)
                kids.extend(fill.content); break
        return t.create(self.attrs(t), Fragment.from_(kids))
    def doc(self):
        for _ in range(50):
            d=self.node(self.S.top_node_type)
            try: d.check(); 
            except Exception: continue
            if d.content.size<=80: return d
        return d
if __name__=="__main__":
    rnd=random.Random(0)
    for k,S in schemas().items():
        g=Gen(S,rnd); print(k, g.doc())
